"""A9 decision-region walk (DESIGN.md section 3 / Appendix F.7).

When a value is touched only through comparisons with constants, the constants partition its domain into finitely
many intervals. For one representative per interval the sub-CFG is walked with that concrete value (every condition
that depends only on the value and constants is decided; any other branch forks). The result is an exact table
interval -> set of outcomes, valid for every value of the domain. This is abstract interpretation over a finite exact
partition - nothing of the analysed crate is executed."""
from model import op_const, op_place, place_key

CMP = {'Eq', 'Ne', 'Lt', 'Le', 'Gt', 'Ge'}


def type_range(t):
    k = t['k']
    if k == 'int':
        b = t['bits']
        if t['signed']:
            return -(1 << (b - 1)), (1 << (b - 1)) - 1
        return 0, (1 << b) - 1
    if k == 'bool':
        return 0, 1
    if k == 'char':
        return 0, 0x10FFFF
    return None


def wrap(v, t):
    r = type_range(t)
    if r is None or v is None:
        return v
    lo, hi = r
    if t['k'] == 'int':
        m = 1 << t['bits']
        v &= m - 1
        if t['signed'] and v > hi:
            v -= m
        return v
    return v


PURE = {}


def pure(name):
    def deco(f):
        PURE[name] = f
        return f
    return deco


@pure('char::to_ascii_uppercase')
def _upper(args):
    c = args[0]
    return c - 32 if 0x61 <= c <= 0x7A else c


@pure('char::to_ascii_lowercase')
def _lower(args):
    c = args[0]
    return c + 32 if 0x41 <= c <= 0x5A else c


@pure('u8::to_ascii_uppercase')
def _upper8(args):
    return _upper(args)


@pure('u8::to_ascii_lowercase')
def _lower8(args):
    return _lower(args)


for _n, _f in (('is_ascii', lambda c: c <= 0x7F), ('is_ascii_lowercase', lambda c: 0x61 <= c <= 0x7A),
               ('is_ascii_uppercase', lambda c: 0x41 <= c <= 0x5A),
               ('is_ascii_alphabetic', lambda c: 0x41 <= c <= 0x5A or 0x61 <= c <= 0x7A),
               ('is_ascii_digit', lambda c: 0x30 <= c <= 0x39)):
    for _t in ('char', 'u8'):
        PURE['%s::%s' % (_t, _n)] = (lambda args, _f=_f: int(_f(args[0])))


class Walker:
    """concrete/unknown partial evaluator of one function body for one tracked variable"""

    def __init__(self, fn, classify, stop_at_backedge=True, max_steps=4000, facts=None, depth=0):
        self.facts = facts
        self.depth = depth
        self.fn = fn
        self.classify = classify
        self.back = set(fn.back_edges()) if stop_at_backedge else set()
        self.max_steps = max_steps

    # -- value lookup
    def val_of_place(self, env, refs, pk):
        if pk in env:
            return env[pk]
        l, proj = pk
        # (*ref) where ref -> place
        if proj and proj[0] == ('deref', ) and (l, ()) in refs:
            tgt = refs[(l, ())]
            return self.val_of_place(env, refs, (tgt[0], tgt[1] + proj[1:]))
        return None

    def val_of_operand(self, env, refs, o):
        p = op_place(o)
        if p is not None:
            return self.val_of_place(env, refs, place_key(p))
        c = op_const(o)
        if c is not None:
            return c.get('val')
        return None

    def operand_type(self, o):
        p = op_place(o)
        fn = self.fn
        if p is not None:
            from analyses import place_prefix_type
            return place_prefix_type(fn, p, len(p['p']))
        c = op_const(o)
        if c is not None:
            return fn.ty(c['ty'])
        return None

    def eval_rvalue(self, env, refs, lhs_ty, rv):
        k = rv['k']
        if k == 'use':
            return self.val_of_operand(env, refs, rv['a'])
        if k == 'agg' and rv.get('ak') == 'adt' and not rv['ops']:
            return rv['vi']  # fieldless enum value = its variant index
        if k == 'discr':
            return self.val_of_place(env, refs, place_key(rv['p']))
        if k == 'cast':
            v = self.val_of_operand(env, refs, rv['a'])
            if v is None:
                return None
            to = self.fn.ty(rv['to'])
            if to['k'] in ('int', 'char', 'bool'):
                return wrap(v, to)
            return None
        if k == 'unop':
            v = self.val_of_operand(env, refs, rv['a'])
            if v is None:
                return None
            if rv['op'] == 'Not':
                t = self.operand_type(rv['a'])
                if t and t['k'] == 'bool':
                    return 0 if v else 1
                return wrap(~v, t) if t else None
            if rv['op'] == 'Neg':
                return -v
            return None
        if k == 'binop':
            a = self.val_of_operand(env, refs, rv['a'])
            b = self.val_of_operand(env, refs, rv['b'])
            op = rv['op']
            if a is None or b is None:
                # x & 0 etc. not needed
                return None
            ta = self.operand_type(rv['a'])
            if op in CMP:
                return int({'Eq': a == b, 'Ne': a != b, 'Lt': a < b, 'Le': a <= b, 'Gt': a > b, 'Ge': a >= b}[op])
            base = op.replace('WithOverflow', '').replace('Unchecked', '')
            try:
                r = {'Add': a + b, 'Sub': a - b, 'Mul': a * b, 'BitAnd': a & b, 'BitOr': a | b, 'BitXor': a ^ b,
                     'Shl': a << b if 0 <= b < 256 else None, 'Shr': a >> b if 0 <= b < 256 else None,
                     'Div': (a // b if b else None), 'Rem': (a % b if b else None)}.get(base)
            except Exception:
                r = None
            if r is None:
                return None
            if op.endswith('WithOverflow'):
                rng = type_range(ta) if ta else None
                ov = 0
                if rng and not (rng[0] <= r <= rng[1]):
                    ov = 1
                return ('tuple', wrap(r, ta) if ta else r, ov)
            return wrap(r, ta) if ta else r
        return None

    def walk(self, start_blk, init_env, init_refs=None, skip_first=False, pin=()):
        """returns (set of outcomes, list of comparisons seen [(op, const, other_is_const)])"""
        fn = self.fn
        outcomes = set()
        seen = set()
        steps = [0]
        stack = [(start_blk, dict(init_env), dict(init_refs or {}), None)]
        while stack:
            blk, env, refs, came = stack.pop()
            steps[0] += 1
            if steps[0] > self.max_steps:
                outcomes.add('BUDGET')
                break
            key = (blk, tuple(sorted(((str(k), v) for k, v in env.items() if not isinstance(v, tuple)))))
            if key in seen:
                continue
            seen.add(key)
            b = fn.blocks[blk]
            first = skip_first and blk == start_blk and came is None
            for s in ([] if first else b['stmts']):
                if s['k'] != 'assign':
                    continue
                lhs = place_key(s['lhs'])
                rv = s['rv']
                if rv['k'] == 'ref':
                    refs[lhs] = place_key(rv['p'])
                    env.pop(lhs, None)
                    continue
                if rv['k'] == 'use' and op_const(rv['a']) is not None and op_const(rv['a']).get('ev_bytes') is not None:
                    c = op_const(rv['a'])
                    bs = c['ev_bytes']
                    if len(bs) <= 8:
                        key = ('constmem', c['s'])
                        env[(key, ())] = int.from_bytes(bytes(bs), 'little')
                        refs[lhs] = (key, ())
                        env.pop(lhs, None)
                        continue
                from analyses import place_prefix_type
                v = self.eval_rvalue(env, refs, None, rv)
                if isinstance(v, tuple):
                    env[(lhs[0], lhs[1] + (('f', 0, '0'), ))] = v[1]
                    env[(lhs[0], lhs[1] + (('f', 1, '1'), ))] = v[2]
                    env.pop(lhs, None)
                elif v is None:
                    if lhs in pin and lhs in env:
                        continue
                    # kill the place and its sub-places
                    for k2 in [k2 for k2 in env if k2[0] == lhs[0] and k2[1][:len(lhs[1])] == lhs[1]]:
                        env.pop(k2)
                else:
                    env[lhs] = v
            oc = self.classify(self, blk, env, refs, 'block')
            if oc is not None:
                outcomes.add(oc)
                continue
            t = b['term']
            k = t['k']
            if k in ('return', 'unreachable', 'resume', 'terminate', 'other'):
                oc = self.classify(self, blk, env, refs, 'exit')
                outcomes.add(oc if oc is not None else ('RETURN' if k == 'return' else 'DIVERGE'))
                continue
            if k == 'goto' or k == 'drop':
                self._go(stack, blk, t['ret'], env, refs, outcomes)
                continue
            if k == 'assert':
                c = self.val_of_operand(env, refs, t['cond'])
                if c is not None and bool(c) != t['expected']:
                    outcomes.add('PANIC')
                    continue
                if c is None:
                    outcomes.add('MAYPANIC')
                self._go(stack, blk, t['ret'], env, refs, outcomes)
                continue
            if k == 'switch':
                v = self.val_of_operand(env, refs, t['discr'])
                if v is not None:
                    tgt = t['otherwise']
                    for val, tb in t['targets']:
                        if val == v:
                            tgt = tb
                    self._go(stack, blk, tgt, env, refs, outcomes)
                else:
                    for tb in fn.succ(blk):
                        self._go(stack, blk, tb, dict(env), dict(refs), outcomes)
                continue
            if k == 'call':
                callee = t.get('callee') or ''
                dest = place_key(t['dest'])
                f = PURE.get(callee)
                res = None
                if f is not None:
                    av = []
                    for a in t['args']:
                        v = self.val_of_operand(env, refs, a)
                        if v is None:
                            ap = op_place(a)
                            if ap is not None and place_key(ap) in refs:
                                v = self.val_of_place(env, refs, refs[place_key(ap)])
                        av.append(v)
                    if all(x is not None for x in av):
                        res = f(av)
                elif self.facts is not None and self.depth < 2 and callee in self.facts.fns and \
                        self.facts.fns[callee].crate == 'fatfs':
                    cf = self.facts.fns[callee]
                    av = [self.val_of_operand(env, refs, a) for a in t['args']]
                    if all(x is not None for x in av) and len(av) == cf.argc:
                        rets = set()

                        def cls(w2, b2, e2, r2, phase):
                            if phase == 'exit':
                                v2 = e2.get((0, ()))
                                rets.add(v2)
                                return 'ret'
                            if phase == 'call' and not (cf.blocks[b2]['term'].get('callee') or '').startswith(
                                    ('core::convert::', 'char::', 'u8::')):
                                pass
                            return None

                        w2 = Walker(cf, cls, facts=self.facts, depth=self.depth + 1, max_steps=400)
                        out2 = w2.walk(0, {(i + 1, ()): av[i] for i in range(len(av))})
                        if out2 == {'ret'} and len(rets) == 1 and None not in rets:
                            res = rets.pop()
                elif callee in ('core::cmp::PartialEq::eq', 'core::cmp::PartialEq::ne') and len(t['args']) == 2:
                    vs = []
                    for a in t['args']:
                        ap = op_place(a)
                        v = None
                        if ap is not None and place_key(ap) in refs:
                            v = self.val_of_place(env, refs, refs[place_key(ap)])
                        vs.append(v)
                    if vs[0] is not None and vs[1] is not None:
                        res = int(vs[0] == vs[1]) if callee.endswith('::eq') else int(vs[0] != vs[1])
                elif callee in ('core::convert::From::from', 'core::convert::Into::into') and len(t['args']) == 1:
                    v = self.val_of_operand(env, refs, t['args'][0])
                    dt = fn.ty(t['dest_ty'])
                    if v is not None and dt['k'] in ('int', 'char'):
                        res = v
                if dest in pin and dest in env:
                    pass  # the value of this call result is what the table ranges over
                else:
                    for k2 in [k2 for k2 in env if k2[0] == dest[0]]:
                        env.pop(k2)
                    if res is not None:
                        env[dest] = res
                # calls taking &mut of a tracked local invalidate it
                for a in t['args']:
                    p = op_place(a)
                    if p is not None and (p['l'], ()) in refs:
                        lt = fn.local_ty(p['l'])
                        if lt['k'] == 'ref' and lt.get('mut'):
                            tgt = refs[(p['l'], ())]
                            for k2 in [k2 for k2 in env if k2[0] == tgt[0]]:
                                env.pop(k2)
                oc = self.classify(self, blk, env, refs, 'call')
                if oc is not None:
                    outcomes.add(oc)
                    continue
                if t.get('ret') is None:
                    outcomes.add('DIVERGE')
                    continue
                self._go(stack, blk, t['ret'], env, refs, outcomes)
                continue
        return outcomes

    def _go(self, stack, blk, tgt, env, refs, outcomes):
        if (blk, tgt) in self.back:
            outcomes.add('LOOP')
            return
        stack.append((tgt, env, refs, blk))


def tainted_constants(fn, var_key, start_blk):
    """constants that (copies / casts / masked forms of) the variable are compared with, by a taint pass"""
    taint = {var_key}
    consts = set()
    changed = True
    reach = fn.reach_from([start_blk])
    while changed:
        changed = False
        for bi in reach:
            for s in fn.blocks[bi]['stmts']:
                if s['k'] != 'assign':
                    continue
                lhs = place_key(s['lhs'])
                rv = s['rv']
                src = []
                if rv['k'] in ('use', 'cast'):
                    p = op_place(rv['a'])
                    if p is not None:
                        src.append(place_key(p))
                if rv['k'] in ('ref', 'discr'):
                    src.append(place_key(rv['p']))
                for pk in src:
                    base_ok = pk in taint or ((pk[0], ()) in taint and all(e == ('deref', ) for e in pk[1]))
                    if base_ok and lhs not in taint:
                        taint.add(lhs)
                        changed = True
    for _ in range(3):
        for bi in reach:
            t = fn.blocks[bi]['term']
            if t['k'] == 'call' and t.get('callee') in ('core::convert::From::from', 'core::convert::Into::into') and \
                    len(t['args']) == 1:
                p = op_place(t['args'][0])
                if p is not None and place_key(p) in taint:
                    taint.add(place_key(t['dest']))
            for s in fn.blocks[bi]['stmts']:
                if s['k'] == 'assign' and s['rv']['k'] in ('use', 'cast'):
                    p = op_place(s['rv']['a'])
                    if p is not None and place_key(p) in taint:
                        taint.add(place_key(s['lhs']))
    for bi in reach:
        for s in fn.blocks[bi]['stmts']:
            if s['k'] == 'assign' and s['rv']['k'] == 'binop' and s['rv']['op'] in CMP:
                a, b = s['rv']['a'], s['rv']['b']
                for x, y in ((a, b), (b, a)):
                    p = op_place(x)
                    c = op_const(y)
                    if p is not None and c is not None and c.get('val') is not None:
                        pk = place_key(p)
                        if pk in taint or ((pk[0], ()) in taint and all(e == ('deref', ) for e in pk[1])):
                            consts.add(c['val'])
        t = fn.blocks[bi]['term']
        if t['k'] == 'switch':
            p = op_place(t['discr'])
            if p is not None:
                pk = place_key(p)
                if pk in taint:
                    for v, _ in t['targets']:
                        consts.add(v)
    return consts, taint


def decision_table(fn, var_key, var_ty, start_blk, classify, extra_consts=(), domain=None, init_env=None,
                   stop_at_backedge=True, skip_first=False, pin=False, facts=None):
    """[(lo, hi, frozenset(outcomes))] over the whole domain of the variable, adjacent equal intervals merged"""
    consts, _ = tainted_constants(fn, var_key, start_blk)
    consts |= set(extra_consts)
    lo, hi = domain or type_range(var_ty)
    cuts = {lo}
    for c in consts:
        for x in (c, c + 1):
            if lo <= x <= hi:
                cuts.add(x)
    holes = []
    if var_ty['k'] == 'char':
        cuts |= {0xD800, 0xE000}
        holes = [(0xD800, 0xDFFF)]
    pts = sorted(cuts)
    w = Walker(fn, classify, stop_at_backedge=stop_at_backedge, facts=facts)
    rows = []
    for i, a in enumerate(pts):
        b = (pts[i + 1] - 1) if i + 1 < len(pts) else hi
        if any(h0 <= a and b <= h1 for h0, h1 in holes):
            continue
        env = dict(init_env or {})
        env[var_key] = a
        pins = tuple([var_key] if pin else []) + tuple((init_env or {}).keys() if pin else ())
        out = frozenset(w.walk(start_blk, env, skip_first=skip_first, pin=pins))
        if rows and rows[-1][2] == out and rows[-1][1] + 1 == a:
            rows[-1] = (rows[-1][0], b, out)
        else:
            rows.append((a, b, out))
    # merge across the surrogate hole for readability
    return rows, sorted(consts)


def fmt_rows(rows, as_char=False):
    out = []
    for a, b, o in rows:
        if as_char:
            out.append('U+%04X..U+%04X -> %s' % (a, b, '/'.join(sorted(map(str, o)))))
        else:
            out.append('0x%X..0x%X -> %s' % (a, b, '/'.join(sorted(map(str, o)))))
    return out


def diff_tables(got, want):
    """compare two interval tables [(lo,hi,outcomes)] pointwise; returns list of (lo, hi, got, want)"""
    pts = sorted({a for a, _, _ in got} | {a for a, _, _ in want} | {b + 1 for _, b, _ in got} | {b + 1 for _, b, _ in want})

    def look(tbl, x):
        for a, b, o in tbl:
            if a <= x <= b:
                return o
        return None
    out = []
    for i, a in enumerate(pts[:-1]):
        b = pts[i + 1] - 1
        g, w = look(got, a), look(want, a)
        if g is None and w is None:
            continue
        if g != w:
            if out and out[-1][1] + 1 == a and out[-1][2] == g and out[-1][3] == w:
                out[-1] = (out[-1][0], b, g, w)
            else:
                out.append((a, b, g, w))
    return out
