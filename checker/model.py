"""Fact model: loads the extractor's JSON, builds per-function CFGs and the monomorphic call graph.

Everything here is mechanical; no rule lives in this file.
"""
import json
import os
import re
import sys
from collections import defaultdict, deque

sys.setrecursionlimit(20000)

# ---------------------------------------------------------------------------------------------
# places / operands (canonical hashable forms)


def place_key(p):
    """canonical hashable form of a place dict"""
    out = []
    for e in p['p']:
        if 'deref' in e:
            out.append(('deref',))
        elif 'f' in e:
            out.append(('f', e['f'], e.get('n') if e.get('n') is not None else str(e['f'])))
        elif 'dc' in e or 'vi' in e:
            out.append(('dc', e.get('dc'), e.get('vi')))
        elif 'idx' in e:
            out.append(('idx', e['idx']))
        elif 'ci' in e:
            out.append(('ci', e['ci'], e['min'], e['from_end']))
        elif 'sub_from' in e:
            out.append(('sub', e['sub_from'], e['sub_to'], e['from_end']))
        else:
            out.append(('other',))
    return (p['l'], tuple(out))


def place_str(p, fn=None):
    l, proj = p if isinstance(p, tuple) else place_key(p)
    name = None
    if fn is not None and l < len(fn.locals):
        name = fn.locals[l].get('name')
    s = '_%d' % l + (('{%s}' % name) if name else '')
    for e in proj:
        if e[0] == 'deref':
            s = '(*%s)' % s
        elif e[0] == 'f':
            s += '.%s' % (e[2] if e[2] is not None else e[1])
        elif e[0] == 'dc':
            s = '(%s as %s)' % (s, e[1] if e[1] is not None else e[2])
        elif e[0] == 'idx':
            s += '[_%d]' % e[1]
        elif e[0] == 'ci':
            s += '[%s%d]' % ('-' if e[3] else '', e[1])
        elif e[0] == 'sub':
            s += '[%d..%s%d]' % (e[1], '-' if e[3] else '', e[2])
        else:
            s += '.?'
    return s


def op_place(o):
    """place dict of a copy/move operand, else None"""
    if 'c' in o:
        return o['c']
    if 'm' in o:
        return o['m']
    return None


def op_const(o):
    return o.get('k')


def op_str(o, fn=None):
    if 'c' in o:
        return place_str(o['c'], fn)
    if 'm' in o:
        return 'move ' + place_str(o['m'], fn)
    k = o.get('k')
    if k is None:
        return '?'
    if k.get('fn'):
        return 'fn ' + k['fn']
    if k.get('val') is not None:
        return 'const %d' % k['val']
    return 'const ' + k['s'][:40]


def operands_of_rvalue(rv):
    k = rv['k']
    if k in ('use', 'repeat', 'cast', 'unop'):
        return [rv['a']]
    if k == 'binop':
        return [rv['a'], rv['b']]
    if k == 'agg':
        return list(rv['ops'])
    return []


def places_read_by_rvalue(rv):
    out = []
    for o in operands_of_rvalue(rv):
        p = op_place(o)
        if p is not None:
            out.append(p)
    if rv['k'] in ('ref', 'rawptr', 'discr'):
        out.append(rv['p'])
    return out


# ---------------------------------------------------------------------------------------------
# functions


class Fn:
    def __init__(self, name, d, types, adts, source):
        self.name = name
        self.d = d
        self.types = types
        self.adts = adts
        self.source = source  # 'fatfs' | 'witness'
        self.crate = d['crate']
        self.blocks = d['blocks']
        self.locals = d['locals']
        self.argc = d['argc']
        self.span = d['span']
        self.is_closure = d['is_closure']
        self.impl_trait = d.get('impl_trait')
        self.self_ty = d.get('self_ty')
        self.pub = d.get('pub', False)
        self._succ = None
        self._pred = None
        self._dom = None
        self._pdom = None
        self._reach = None

    # -- types
    def ty(self, ix):
        return self.types[ix]

    def local_ty(self, l):
        return self.types[self.locals[l]['ty']]

    def is_drop_impl(self):
        return self.impl_trait == 'core::ops::drop::Drop'

    def file(self):
        f = self.span['file']
        i = f.rfind('/src/')
        return f[i + 1:] if i >= 0 else f

    def loc(self, span):
        f = span['file']
        i = f.rfind('/src/')
        return '%s:%d' % (f[i + 1:] if i >= 0 else f, span['line'])

    # -- CFG over normal (non-unwind, non-cleanup) edges
    def succ(self, b):
        if self._succ is None:
            self._build_cfg()
        return self._succ[b]

    def pred(self, b):
        if self._pred is None:
            self._build_cfg()
        return self._pred[b]

    def _build_cfg(self):
        n = len(self.blocks)
        succ = [[] for _ in range(n)]
        for i, b in enumerate(self.blocks):
            if b['cleanup']:
                continue
            t = b['term']
            k = t['k']
            if k in ('goto', 'drop', 'assert'):
                succ[i] = [t['ret']]
            elif k == 'call':
                succ[i] = [t['ret']] if t.get('ret') is not None else []
            elif k == 'switch':
                s = []
                for v, tb in t['targets']:
                    if tb not in s:
                        s.append(tb)
                if t['otherwise'] not in s:
                    s.append(t['otherwise'])
                succ[i] = s
            else:
                succ[i] = []
        pred = [[] for _ in range(n)]
        for i, ss in enumerate(succ):
            for s in ss:
                pred[s].append(i)
        self._succ, self._pred = succ, pred

    def reachable(self):
        if self._reach is None:
            seen = {0}
            st = [0]
            while st:
                b = st.pop()
                for s in self.succ(b):
                    if s not in seen:
                        seen.add(s)
                        st.append(s)
            self._reach = seen
        return self._reach

    def return_blocks(self):
        return [i for i in self.reachable() if self.blocks[i]['term']['k'] == 'return']

    def dominators(self):
        """dom[b] = set of blocks dominating b (iterative; functions are small)"""
        if self._dom is None:
            self._dom = _dominators(sorted(self.reachable()), 0, self.pred)
        return self._dom

    def dominates(self, a, b):
        d = self.dominators()
        return b in d and a in d[b]

    def postdominators(self):
        if self._pdom is None:
            nodes = sorted(self.reachable())
            exits = [b for b in nodes if not self.succ(b)]
            # virtual exit = -1
            succ = lambda b: self.succ(b) if self.succ(b) else [-1]
            pred = defaultdict(list)
            for b in nodes:
                for s in succ(b):
                    pred[s].append(b)
            rp = lambda b: [x for x in (self.succ(b) if b != -1 else [])] or ([-1] if b != -1 else [])
            self._pdom = _dominators(nodes + [-1], -1, lambda b: (self.succ(b) or [-1]) if b != -1 else [])
        return self._pdom

    def postdominates(self, a, b):
        d = self.postdominators()
        return b in d and a in d[b]

    def back_edges(self):
        out = []
        for b in self.reachable():
            for s in self.succ(b):
                if self.dominates(s, b):
                    out.append((b, s))
        return out

    def natural_loop(self, tail, head):
        body = {head, tail}
        st = [tail]
        while st:
            x = st.pop()
            if x == head:
                continue
            for p in self.pred(x):
                if p not in body and p in self.reachable():
                    body.add(p)
                    st.append(p)
        return body

    def loops(self):
        """head -> set of blocks (merged over back edges with the same head)"""
        out = {}
        for t, h in self.back_edges():
            out.setdefault(h, set()).update(self.natural_loop(t, h))
        return out

    def reach_from(self, starts, cut_blocks=(), cut_edges=()):
        cut_blocks = set(cut_blocks)
        cut_edges = set(cut_edges)
        seen = set()
        st = []
        for s in starts:
            if s not in cut_blocks:
                seen.add(s)
                st.append(s)
        while st:
            b = st.pop()
            for s in self.succ(b):
                if s in seen or s in cut_blocks or (b, s) in cut_edges:
                    continue
                seen.add(s)
                st.append(s)
        return seen

    # -- calls
    def calls(self):
        for i in sorted(self.reachable()):
            t = self.blocks[i]['term']
            if t['k'] in ('call', 'tailcall'):
                yield i, t

    def callee(self, b):
        t = self.blocks[b]['term']
        return t.get('callee') if t['k'] in ('call', 'tailcall') else None


def _dominators(nodes, entry, pred_fn):
    nodes = list(nodes)
    allset = set(nodes)
    dom = {n: set(allset) for n in nodes}
    dom[entry] = {entry}
    changed = True
    # reverse post-order would be faster; functions are small
    while changed:
        changed = False
        for n in nodes:
            if n == entry:
                continue
            ps = [p for p in pred_fn(n) if p in allset]
            if not ps:
                new = {n}
            else:
                new = set(dom[ps[0]])
                for p in ps[1:]:
                    new &= dom[p]
                new.add(n)
            if new != dom[n]:
                dom[n] = new
                changed = True
    return dom


# ---------------------------------------------------------------------------------------------
# whole-program facts


class Facts:
    def __init__(self, api_path, wit_path):
        api = json.load(open(api_path))
        wit = json.load(open(wit_path))
        self.config = api.get('config')
        self.nonce = (api.get('nonce'), wit.get('nonce'))
        self.api = api
        self.wit = wit
        self.fns = {}
        for name, d in api['fns'].items():
            self.fns[name] = Fn(name, d, api['types'], api['adts'], 'fatfs')
        for name, d in wit['fns'].items():
            self.fns[name] = Fn(name, d, wit['types'], wit['adts'], 'witness')
        for f_ in self.fns.values():
            f_.facts_ref = self
        self.adts = dict(wit['adts'])
        self.adts.update(api['adts'])
        self.consts = api.get('consts', {})
        self.public_fns = set(api['public_fns'])
        self.instances = wit['instances']
        self.roots = wit['roots']  # name -> instance id
        self.unresolved = wit['unresolved']
        # edges
        self.out_edges = defaultdict(list)  # inst -> [(bb, callee inst, kind)]
        self.in_edges = defaultdict(list)
        self.edge_at = defaultdict(list)  # (inst, bb) -> [(callee, kind)]
        for a, bb, c, kind in wit['edges']:
            self.out_edges[a].append((bb, c, kind))
            self.in_edges[c].append((a, bb, kind))
            self.edge_at[(a, bb)].append((c, kind))
        self.insts_of = defaultdict(list)  # fn name -> [inst ids]
        for i in self.instances:
            self.insts_of[i['fn']].append(i['id'])
        # calls through function pointers: the callee is one of the functions the program turns into a pointer somewhere
        # (`reify` edges; the reifying function already reaches them) that takes as many arguments as the call passes
        reified = sorted({c for _a, _bb, c, kind in wit['edges'] if kind == 'reify'})
        self.indirect_sites = {}  # (fn name, bb) -> number of candidate callees (0: the pointer comes from outside)
        for u in self.unresolved:
            if len(u) != 3 or u[2] != 'indirect':
                continue
            a, bb = u[0], u[1]
            caller = self.fns.get(self.instances[a]['fn'])
            if caller is None or bb >= len(caller.blocks) or self.instances[a].get('crate') in ('core', 'alloc', 'std'):
                continue  # (inside the standard library the reify edge of the pointer's creation covers reachability)
            t = caller.blocks[bb]['term']
            n = len(t.get('args') or [])
            cands = [c for c in reified if self.fns.get(self.instances[c]['fn']) is None
                     or self.fns[self.instances[c]['fn']].argc == n]
            key = (caller.name, bb)
            self.indirect_sites[key] = max(self.indirect_sites.get(key, 0), len(cands)) if cands else 0
            for c in cands:
                self.out_edges[a].append((bb, c, 'call'))
                self.in_edges[c].append((a, bb, 'call'))
                self.edge_at[(a, bb)].append((c, 'call'))
        # functions the rule tables do not know (split off by a refactoring) are made transparent
        if os.environ.get('VF_NO_INLINE') != '1':
            import inline
            inline.devirtualise(self)
            inline.normalise(self)
            inline.fold_const_enums(self)
            inline.normalise_loops(self)
            k_ = inline.load_known()
            if k_ is not None:
                inline.direct_closure_calls(self, k_)
        if os.environ.get('VF_NO_THREAD') != '1':
            import inline
            inline.thread_bools(self)
            inline.thread_enums(self)
            inline.canonical_field_names(self)

    def fatfs_fns(self):
        return [f for f in self.fns.values() if f.crate == 'fatfs']

    def fn_of_inst(self, iid):
        return self.fns.get(self.instances[iid]['fn'])

    def inst_name(self, iid):
        return self.instances[iid]['fn']

    # -- generic reverse reachability: instances that may reach a leaf set
    def may_reach(self, leaf_pred):
        leaves = [i['id'] for i in self.instances if leaf_pred(i)]
        seen = set(leaves)
        dq = deque(leaves)
        while dq:
            x = dq.popleft()
            for a, bb, kind in self.in_edges[x]:
                if a not in seen:
                    seen.add(a)
                    dq.append(a)
        return seen

    def reach_from_insts(self, starts, stop=lambda inst_id: False, edge_filter=None):
        seen = set(starts)
        dq = deque(starts)
        while dq:
            x = dq.popleft()
            if stop(x):
                continue
            for bb, c, kind in self.out_edges[x]:
                if edge_filter is not None and not edge_filter(x, bb, c, kind):
                    continue
                if c not in seen:
                    seen.add(c)
                    dq.append(c)
        return seen

    def callees_at(self, fn_name, bb):
        """resolved callee fn names at (fn, bb) over all instances of fn; None if fn has no instance"""
        ids = self.insts_of.get(fn_name)
        if not ids:
            return None
        out = set()
        for iid in ids:
            for c, kind in self.edge_at.get((iid, bb), ()):
                out.add(c)
        return out


# ---------------------------------------------------------------------------------------------
# type predicates


def ty_contains(types, ix, pred, depth=0, seen=None):
    """does type ix (or any of its generic arguments / pointees) satisfy pred(tyinfo)?"""
    if seen is None:
        seen = set()
    if ix in seen or depth > 8:
        return False
    seen.add(ix)
    t = types[ix]
    if pred(t):
        return True
    k = t['k']
    subs = []
    if k in ('adt', 'alias'):
        subs = t.get('args', [])
    elif k in ('ref', 'ptr'):
        subs = [t['to']]
    elif k in ('slice', 'array'):
        subs = [t['of']]
    elif k == 'tuple':
        subs = t['of']
    return any(ty_contains(types, s, pred, depth + 1, seen) for s in subs)


RESULT = 'core::result::Result'
OPTION = 'core::option::Option'
CFLOW = 'core::ops::control_flow::ControlFlow'


def is_adt(t, path):
    return t['k'] == 'adt' and t['path'] == path
