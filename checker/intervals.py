"""A8: forward interval analysis over MIR and the panic-site inventory (DESIGN.md section 3 / Appendix F.6).

Abstract value: closed integer interval [lo, hi] (mathematical integers, clipped to the type range where the
operation wraps). Booleans additionally remember the comparison that produced them so that a SwitchInt refines the
compared operands on each arm. The analysis is sound (ranges over-approximate): it can fail to discharge a site, it
cannot wrongly discharge one.

Discharge classes reported per site:
  D0  constant operands           D1  width provenance (type ranges, masks, widening casts, min/max)
  D2  D1 + branch refinement      D3  needs a validated-struct invariant (machine-checked at its source)
  D4  manual table entry (belief) U   undischarged
"""
from model import op_const, op_place, place_key

INF = float('inf')


def type_range(t):
    if t is None:
        return None
    k = t['k']
    if k == 'int':
        b = t['bits']
        if t['signed']:
            return (-(1 << (b - 1)), (1 << (b - 1)) - 1)
        return (0, (1 << b) - 1)
    if k == 'bool':
        return (0, 1)
    if k == 'char':
        return (0, 0x10FFFF)
    return None


EMPTY_IV = (1, 0)
# callee-suffix -> forced result interval, set temporarily by analyses that look at one variant of a layout
ASSUME_CALLS = {}


def join(a, b):
    if a is None or b is None:
        return None
    if a == EMPTY_IV:
        return b  # empty (the payload range of a value known to be `None`)
    if b == EMPTY_IV:
        return a
    return (min(a[0], b[0]), max(a[1], b[1]))


def meet(a, b):
    if a is None:
        return b
    if b is None:
        return a
    lo, hi = max(a[0], b[0]), min(a[1], b[1])
    if lo > hi:
        return 'empty'
    return (lo, hi)


def clip(iv, rng):
    """interval of a wrapping operation's result: exact if it fits the type, else the whole type range"""
    if iv is None or rng is None:
        return rng
    if iv[0] >= rng[0] and iv[1] <= rng[1]:
        return iv
    return rng


def arith(op, a, b):
    if a is None or b is None:
        return None
    if op == 'Add':
        return (a[0] + b[0], a[1] + b[1])
    if op == 'Sub':
        return (a[0] - b[1], a[1] - b[0])
    if op == 'Mul':
        c = [a[0] * b[0], a[0] * b[1], a[1] * b[0], a[1] * b[1]]
        return (min(c), max(c))
    if op == 'Div':
        if b[0] > 0 and a[0] >= 0:
            return (a[0] // b[1], a[1] // b[0])
        return None
    if op == 'Rem':
        if b[0] > 0 and a[0] >= 0:
            return (0, min(a[1], b[1] - 1))
        return None
    if op == 'BitAnd':
        if a[0] >= 0 and b[0] >= 0:
            return (0, min(a[1], b[1]))
        if b[0] >= 0:
            return (0, b[1])
        if a[0] >= 0:
            return (0, a[1])
        return None
    if op in ('BitOr', 'BitXor'):
        if a[0] >= 0 and b[0] >= 0:
            m = max(a[1], b[1])
            return (0 if op == 'BitXor' else max(a[0], b[0]), (1 << m.bit_length()) - 1 if m else 0)
        return None
    if op == 'Shl':
        if b[0] == b[1] and 0 <= b[0] < 128 and a[0] >= 0:
            return (a[0] << b[0], a[1] << b[0])
        if a[0] >= 0 and 0 <= b[0] and b[1] < 128:
            return (a[0] << b[0], a[1] << b[1])
        return None
    if op == 'Shr':
        if a[0] >= 0 and 0 <= b[0] and b[1] < 128:
            return (a[0] >> b[1], a[1] >> b[0])
        return None
    return None


class FnCtx:
    """what may be assumed when analysing one function: parameter ranges and field invariants"""

    def __init__(self, params=None, fields=None, used=None, lens=None):
        self.lens = lens or {}
        self.params = params or {}
        self.fields = fields or {}  # (adt path, field name) -> interval
        self.used = used if used is not None else set()  # invariants actually consulted


class Analysis:
    def __init__(self, facts, fn, ctx=None, summaries=None, depth=0, inst=None, collector=None):
        self.facts = facts
        self.fn = fn
        self.ctx = ctx or FnCtx()
        self.summaries = summaries if summaries is not None else {}
        self.depth = depth
        self.inst = inst
        self.collector = collector
        self.in_state = {}
        self.rel = {}
        self.ret = None
        self.established = {}
        self.pending = {}
        self.modelled_closures = set()
        from analyses import label_results
        self.ok_edges = {}
        for cb, info in label_results(fn).items():
            if info['status'] == 'labelled':
                for e in info['ok']:
                    self.ok_edges.setdefault(e, []).append(cb)
        self.run()
        if self.collector is not None:
            self.collector.collect(self)

    # ---- helpers
    def ty_of_place(self, p):
        from analyses import place_prefix_type
        return place_prefix_type(self.fn, p, len(p['p']))

    def option_field_invariant(self, p):
        """payload interval of an `Option<int>` field proved as a store-hull invariant (rules/fieldinv.py), or None"""
        from analyses import place_prefix_type
        if not p['p'] or 'f' not in p['p'][-1]:
            return None
        owner = place_prefix_type(self.fn, p, len(p['p']) - 1)
        if owner is None or owner['k'] != 'adt':
            return None
        key = (owner['path'], p['p'][-1].get('n'), 'some')
        iv = self.ctx.fields.get(key)
        if iv is not None:
            self.ctx.used.add(key)
        return iv

    def field_invariant(self, p, st=None):
        """interval assumed for a field read through a reference/struct (D3), or None"""
        from analyses import place_prefix_type
        if not p['p'] or 'f' not in p['p'][-1]:
            return None
        owner = place_prefix_type(self.fn, p, len(p['p']) - 1)
        if owner is None or owner['k'] != 'adt':
            return None
        key = (owner['path'], p['p'][-1].get('n'))
        iv = None
        if st is not None and ('inv', ) + key in st:
            iv = st[('inv', ) + key]
        if iv is None:
            iv = self.ctx.fields.get(key)
        if iv is not None:
            self.ctx.used.add(key)
        return iv

    def read_place(self, st, p):
        pk = place_key(p)
        if pk in st:
            return st[pk]
        if pk[1] and pk[1][0] == ('deref', ):
            root = self.root_of_ref(pk)
            if root != pk and root in st and isinstance(st[root], tuple):
                return st[root]
        if len(pk[1]) >= 2 and pk[1][-2][0] == 'dc' and pk[1][-2][1] in ('Some', 'Ok', 'Continue') and pk[1][-1][0] == 'f':
            base = (pk[0], pk[1][:-2])
            if ('some', base) in st:
                t0 = type_range(self.ty_of_place(p))
                m0 = meet(st[('some', base)], t0) if t0 else st[('some', base)]
                if m0 != 'empty':
                    return m0
            else:
                inv_some = self.option_field_invariant({'l': p['l'], 'p': p['p'][:-2]})
                t0 = type_range(self.ty_of_place(p))
                if inv_some is not None and t0 is not None and meet(inv_some, t0) != 'empty':
                    return meet(inv_some, t0)
        t = self.ty_of_place(p)
        rng = type_range(t)
        if not p['p']:
            return rng
        inv = self.field_invariant(p, st)
        if inv is not None and rng is not None:
            m = meet(inv, rng)
            return rng if m == 'empty' else m
        # array length known from type? (not an integer place)
        return rng

    def read_operand(self, st, o):
        p = op_place(o)
        if p is not None:
            return self.read_place(st, p)
        c = op_const(o)
        if c is not None and c.get('val') is not None:
            v = c['val']
            t = self.fn.ty(c['ty'])
            if t['k'] == 'int' and t['signed'] and v >= (1 << (t['bits'] - 1)):
                v -= (1 << t['bits'])
            return (v, v)
        if c is not None:
            return type_range(self.fn.ty(c['ty']))
        return None

    def operand_ty(self, o):
        p = op_place(o)
        if p is not None:
            return self.ty_of_place(p)
        c = op_const(o)
        if c is not None:
            return self.fn.ty(c['ty'])
        return None

    # ---- transfer
    def assign(self, st, rel, lhs, rv, blk):
        fn = self.fn
        lk = place_key(lhs)
        lty = self.ty_of_place(lhs)
        rng = type_range(lty)
        k = rv['k']
        val = None
        newrel = None
        aux = {}
        if k in ('use', 'cast'):
            p0 = op_place(rv['a'])
            if p0 is not None:
                for tag in ('len', 'some', 'issome', 'lenof', 'lensym', 'range'):
                    if (tag, place_key(p0)) in st:
                        aux[tag] = st[(tag, place_key(p0))]
                if 'some' not in aux and k == 'use':
                    inv_some = self.option_field_invariant(p0)
                    if inv_some is not None:
                        aux['some'] = inv_some
        if k == 'ref':
            rp = place_key(rv['p'])
            # &*x / &mut *x of a slice reference keeps its length
            if rp[1] == (('deref', ), ) and ('len', (rp[0], ())) in st:
                aux['len'] = st[('len', (rp[0], ()))]
                if ('lensym', (rp[0], ())) in st:
                    aux['lensym'] = st[('lensym', (rp[0], ()))]
            else:
                # & of an array-typed place
                t0 = self.ty_of_place(rv['p'])
                if t0 is not None and t0['k'] == 'array':
                    ln = self.len_of_type(t0)
                    if ln[0] == ln[1]:
                        aux['len'] = ln
        if k == 'use':
            val = self.read_operand(st, rv['a'])
            p = op_place(rv['a'])
            if p is not None and place_key(p) in rel:
                newrel = rel[place_key(p)]
            if p is not None and not p['p'] and not lhs['p'] and lty is not None and lty.get('k') == 'int' and \
                    self.copy_src.get(lk) is None and p['l'] != lhs['l'] and lk in getattr(self, 'copy_local', {}):
                # a temp copy of a variable that is assigned more than once (`total += 1; .. name[total..total + n]`): the copy
                # equals the variable until either is overwritten - kept as `copy = variable + 0`, which linear forms expand
                self._new_facts = getattr(self, '_new_facts', []) + [('sum', lk, place_key(p), ('const', 0))]
        elif k == 'cast':
            v = self.read_operand(st, rv['a'])
            to = fn.ty(rv['to'])
            trng = type_range(to)
            if trng is not None:
                val = clip(v, trng) if v is not None else trng
        elif k == 'binop':
            op = rv['op']
            a = self.read_operand(st, rv['a'])
            b = self.read_operand(st, rv['b'])
            base = op.replace('WithOverflow', '').replace('Unchecked', '')
            if op in ('Eq', 'Ne', 'Lt', 'Le', 'Gt', 'Ge'):
                val = (0, 1)
                if a is not None and b is not None:
                    t = decide_cmp(op, a, b)
                    if t is not None:
                        val = (t, t)
                newrel = ('cmp', op, rv['a'], rv['b'])
            elif op.endswith('WithOverflow'):
                aty = type_range(self.operand_ty(rv['a']))
                r = arith(base, a, b)
                if base == 'Sub' and r is not None and a is not None and self.known_lt(st, rv['b'], rv['a']):
                    r = (max(r[0], 1), max(min(r[1], a[1]), 1))
                if base == 'Sub' and b is not None and b[0] >= 1 and op_place(rv['a']) is not None:
                    zk = (lk[0], lk[1] + (('f', 0, '0'), ))
                    for k2 in [k2 for k2 in st if k2 and k2[0] in FACT_TAGS and zk in k2[1:]]:
                        st.pop(k2)
                    ak = self.canon(place_key(op_place(rv['a'])))
                    self.add_fact(st, ('lt', zk, ak))
                    for k2 in [k2 for k2 in st if k2 and k2[0] in ('lt', 'le') and k2[1] == ak and k2[2][0] == 'slen']:
                        self.add_fact(st, ('lt', zk, k2[2]))  # z < a <= len(s)
                if base == 'Add':
                    f0 = self.sum_fact((lk[0], lk[1] + (('f', 0, '0'), )), rv['a'], rv['b'])
                    for k2 in [k2 for k2 in st if k2 and k2[0] in FACT_TAGS and (lk[0], lk[1] + (('f', 0, '0'), )) in k2[1:]]:
                        st.pop(k2)
                    if f0 is not None:
                        self.add_fact(st, f0)
                st[(lk[0], lk[1] + (('f', 0, '0'), ))] = clip(r, aty) if aty else r
                st[(lk[0], lk[1] + (('f', 1, '1'), ))] = (0, 1)
                rel.pop(lk, None)
                return
            else:
                aty = type_range(self.operand_ty(rv['a'])) or rng
                r = arith(base, a, b)
                if base == 'Rem' and b is not None and b[0] > 0 and a is not None and a[0] >= 0:
                    bp = op_place(rv['b'])
                    if bp is not None:
                        self._new_facts = [('lt', lk, self.canon(place_key(bp)))]
                if base == 'Add':
                    self._new_facts = [self.sum_fact(lk, rv['a'], rv['b'])]
                if base in ('Add', 'Sub', 'Mul', 'Shl'):
                    val = clip(r, aty) if aty else r
                    if base == 'Sub' and self.known_lt(st, rv['b'], rv['a']) and val is not None and a is not None:
                        val = (max(val[0], 1), min(val[1], a[1]) if val[1] >= 1 else val[1])
                else:
                    val = r if r is not None else rng
                    if val is not None and rng is not None:
                        m = meet(val, rng)
                        val = rng if m == 'empty' else m
        elif k == 'unop':
            a = self.read_operand(st, rv['a'])
            if rv['op'] == 'Not':
                t = self.operand_ty(rv['a'])
                if t and t['k'] == 'bool':
                    val = (0, 1)
                    if a is not None and a[0] == a[1]:
                        val = (1 - a[0], 1 - a[0])
                    p = op_place(rv['a'])
                    if p is not None and place_key(p) in rel and rel[place_key(p)][0] == 'cmp':
                        _, op, x, y = rel[place_key(p)]
                        newrel = ('cmp', NEG[op], x, y)
                    elif p is not None and place_key(p) in rel and rel[place_key(p)][0] == 'pow2':
                        newrel = ('notpow2', rel[place_key(p)][1])
                else:
                    val = rng
            elif rv['op'] == 'PtrMetadata':
                # length of a slice / array reference
                val = self.len_of_ref_operand(st, rv['a'])
                p_ = op_place(rv['a'])
                if p_ is not None:
                    if not hasattr(self, 'slen_of'):
                        self.slen_of = {}
                    self.slen_of[lk] = self.slice_ident(place_key(p_))
                    self.add_fact(st, ('le', lk, self.slen_of[lk]))
            else:
                val = rng
        elif k == 'repeat' or k == 'agg' or k == 'ref' or k == 'rawptr':
            val = None
            if k == 'agg' and rv.get('ak') == 'adt' and rv.get('adt') == 'core::option::Option':
                # payload range of an Option built here: empty for None (joins away), the operand's range for Some
                if rv.get('variant') == 'None':
                    aux['some'] = (1, 0)
                elif rv.get('variant') == 'Some' and rv['ops']:
                    pv = self.read_operand(st, rv['ops'][0])
                    if pv is not None:
                        aux['some'] = pv
            if k == 'agg' and rv.get('ak') == 'adt' and rv['adt'].endswith('ops::range::Range') and len(rv['ops']) == 2:
                a0, b0 = self.read_operand(st, rv['ops'][0]), self.read_operand(st, rv['ops'][1])
                if a0 is not None and b0 is not None:
                    aux['range'] = (a0[0], b0[1])
            if k == 'ref':
                # remember what the reference points to (for len / deref reads)
                self.refs[lk] = place_key(rv['p'])
        elif k == 'discr':
            val = (0, 1 << 16)
            pty_ = self.ty_of_place(rv['p'])
            if pty_ and pty_.get('path') == 'core::option::Option' and st.get(('some', place_key(rv['p']))) == EMPTY_IV:
                val = (0, 0)  # built as `None` on every path reaching here
        else:
            val = rng
        # payload fields of an enum value built here (`FatMirroring::Disabled { active_fat: flags & 0x0F }`), and the known
        # sub-places of a whole aggregate that is copied / moved
        sub = {}
        if k == 'agg' and rv.get('ak') == 'adt' and rv.get('variant') is not None and rv.get('vi') is not None and \
                rv.get('adt') != 'core::option::Option' and (self.facts.adts.get(rv.get('adt')) or {}).get('kind') == 'enum':
            names = rv.get('fields') or []
            for i_, o_ in enumerate(rv.get('ops') or []):
                oty_ = self.operand_ty(o_)
                if oty_ is not None and oty_.get('k') == 'int':
                    v_ = self.read_operand(st, o_)
                    if v_ is not None:
                        sub[(('dc', rv['variant'], rv['vi']), ('f', i_, names[i_] if i_ < len(names) and names[i_] is not None else str(i_)))] = v_
        if k == 'use' and val is None:
            p_ = op_place(rv['a'])
            if p_ is not None:
                pk_ = place_key(p_)
                for k2 in st:
                    if k2 and k2[0] == pk_[0] and isinstance(k2[1], tuple) and len(k2[1]) > len(pk_[1]) and \
                            k2[1][:len(pk_[1])] == pk_[1] and isinstance(st[k2], tuple) and len(st[k2]) == 2:
                        sub[k2[1][len(pk_[1]):]] = st[k2]
        # kill sub-places and auxiliary facts about the overwritten place
        for k2 in [k2 for k2 in st if k2[0] == lk[0] and k2 != lk and k2[1][:len(lk[1])] == lk[1]]:
            st.pop(k2)
        for suf_, v_ in sub.items():
            st[(lk[0], lk[1] + suf_)] = v_
        for tag in ('len', 'some', 'issome', 'lenof', 'lensym', 'range'):
            st.pop((tag, lk), None)
        for tag, v3 in aux.items():
            st[(tag, lk)] = v3
        if val is None:
            st.pop(lk, None)
        else:
            if rng is not None:
                m = meet(val, rng)
                val = rng if m == 'empty' else m
            st[lk] = val
        if newrel is not None:
            rel[lk] = newrel
        else:
            rel.pop(lk, None)
        # symbolic facts (x < y, x <= y, z = x + y): drop those about the overwritten place, copy them along plain
        # copies / value-preserving casts, add the ones this statement produces
        for k2 in [k2 for k2 in st if k2 and k2[0] in FACT_TAGS and lk in k2[1:]]:
            st.pop(k2)
        self.kill_slen(st, lk)
        if k == 'use' or (k == 'cast' and self.cast_preserves(st, rv)):
            p0 = op_place(rv['a'])
            if p0 is not None:
                srcs = {place_key(p0), self.canon(place_key(p0))}
                for k2 in [k2 for k2 in list(st) if k2 and k2[0] in FACT_TAGS]:
                    for src0 in srcs:
                        if src0 in k2[1:]:
                            st[(k2[0], ) + tuple(lk if x == src0 else x for x in k2[1:])] = st[k2]
        for f in getattr(self, '_new_facts', []):
            self.add_fact(st, f)
        self._new_facts = []
        # relations mentioning the overwritten place become stale
        for k2 in [k2 for k2, r in rel.items() if k2 != lk and mentions(r, lk)]:
            rel.pop(k2)

    def len_of_ref_operand(self, st, o):
        p = op_place(o)
        if p is None:
            return (0, (1 << 63) - 1)
        pk = place_key(p)
        if ('len', pk) in st:
            return st[('len', pk)]
        if pk[1] == (('deref', ), ) and ('len', (pk[0], ())) in st:
            return st[('len', (pk[0], ()))]
        t = self.ty_of_place(p)
        return self.len_of_type(t, pk, st)

    def len_of_type(self, t, pk=None, st=None):
        types = self.fn.types
        for _ in range(3):
            if t is None:
                break
            if t['k'] in ('ref', 'ptr'):
                t = types[t['to']]
                continue
            if t['k'] == 'array':
                n = t.get('len')
                if n is None:
                    n = self.const_len_from_name(t['s'])
                if n is not None:
                    return (n, n)
            break
        if pk is not None and ('len', pk) in (st or {}):
            return st[('len', pk)]
        return (0, (1 << 63) - 1)

    def const_len_from_name(self, s):
        import re
        m = re.search(r';\s*([A-Za-z_][A-Za-z0-9_:]*)\]', s)
        if m:
            nm = m.group(1).split('::')[-1]
            for cn, cv in self.facts.consts.items():
                if cn.endswith('::' + nm):
                    return cv['val']
        return None

    def const_range_u8(self, o):
        """(lo, hi) of a reference to a promoted `RangeInclusive<u8>` constant, else None"""
        p = op_place(o)
        if p is None:
            return None
        root = self.root_of_ref(place_key(p))
        if root is None or [e for e in root[1] if e[0] != 'deref']:
            return None
        for bi in self.fn.reachable():
            for s in self.fn.blocks[bi]['stmts']:
                if s['k'] == 'assign' and place_key(s['lhs']) == (root[0], ()) and s['rv']['k'] == 'use':
                    c = op_const(s['rv']['a'])
                    if c is None or c.get('ev_bytes') is None or c.get('ev_ty') is None:
                        continue
                    ety = self.fn.ty(c['ev_ty'])
                    if not ety or ety.get('path') != 'core::ops::range::RangeInclusive' or not ety.get('args'):
                        continue
                    ity = self.fn.ty(ety['args'][0])
                    if not ity or ity.get('k') != 'int' or ity.get('signed'):
                        continue
                    w = ity['bits'] // 8
                    bs = c['ev_bytes']
                    if w < 1 or len(bs) != 3 * w and not (w == 1 and len(bs) == 3):
                        continue
                    # three w-byte words in an unspecified field order: start, end and the `exhausted` flag (false,
                    # padded with zeros): drop one zero word, the other two are the bounds
                    words = sorted(int.from_bytes(bytes(bs[i:i + w]), 'little') for i in range(0, len(bs), w))
                    if 0 not in words:
                        continue
                    words.remove(0)
                    return (words[0], words[1])
        return None

    # ---- calls
    def call(self, st, rel, t, blk):
        fn = self.fn
        callee = t.get('callee') or ''
        dest = t['dest']
        dk = place_key(dest)
        dty = self.ty_of_place(dest)
        rng = type_range(dty)
        val = rng
        newrel = None
        args = t['args']
        av = [self.read_operand(st, a) for a in args]
        short = callee.rsplit('::', 1)[-1]
        forced = next((iv for suf, iv in ASSUME_CALLS.items() if callee.endswith(suf)), None)
        if forced is not None:
            # an analysis of one layout variant: the variant predicate is pinned (rules/codec.py)
            val = forced
        elif callee in ('core::convert::From::from', 'core::convert::Into::into') and len(args) == 1:
            v = av[0]
            val = clip(v, rng) if (v is not None and rng is not None) else rng
        elif short in ('min', 'max') and len(args) == 2 and callee.startswith(('core::cmp::', 'u', 'i')):
            a, b = av
            if a is not None and b is not None:
                val = (min(a[0], b[0]), min(a[1], b[1])) if short == 'min' else (max(a[0], b[0]), max(a[1], b[1]))
            if short == 'min':
                self._call_facts = []
                for ao in args:
                    for kk in self.keys_of(ao):
                        self._call_facts.append(('le', dk, kk))
        elif short == 'clamp' and len(args) == 3:
            a, lo, hi = av
            if a is not None and lo is not None and hi is not None:
                val = (max(a[0], lo[0]), min(a[1], hi[1]))
                if val[0] > val[1]:
                    val = (lo[0], hi[1])
        elif short == 'is_power_of_two' and len(args) == 1:
            val = (0, 1)
            newrel = ('pow2', args[0])
        elif short == 'len' and callee in ('[T]::len', 'core::slice::<impl [T]>::len', 'str::len'):
            val = self.len_of_ref_operand(st, args[0]) if callee != 'str::len' else (0, (1 << 63) - 1)
            p = op_place(args[0])
            if p is not None and callee != 'str::len':
                self._set_aux2 = ('lenof', self.root_of_ref(place_key(p)))
                self._call_facts = (getattr(self, '_call_facts', None) or []) + [('le', dk, self.slice_ident(place_key(p)))]
                # a slice cut as `&s[..n]` has the symbolic length n: its len() *is* n
                for kk in self.keys_of(args[0]):
                    ls = st.get(('lensym', kk))
                    if ls is not None and ls[1] == 0 and len(ls[0]) == 1 and next(iter(ls[0]))[1] == 1:
                        self._call_facts.append(('sum', dk, next(iter(ls[0]))[0], ('const', 0)))
                        break
            if p is not None and callee == 'str::len':
                key = ('strlen', self.root_of_ref(place_key(p)))
                if key in st:
                    val = st[key]
                self.len_src[dk] = key
        elif short == 'is_empty' and callee in ('str::is_empty', '[T]::is_empty'):
            val = (0, 1)
            p = op_place(args[0])
            if p is not None and callee == 'str::is_empty':
                newrel = ('strempty', ('strlen', self.root_of_ref(place_key(p))))
        elif callee in ('core::ops::index::Index::index', 'core::ops::index::IndexMut::index_mut') and len(args) == 2:
            # slice[range]: the resulting slice's length
            val = None
            rinfo = self.range_operand(st, args[1], blk, self.len_of_ref_operand(st, args[0]), want_ops=True)
            if rinfo is not None:
                lo, hi, lo_op, hi_op = rinfo
                if lo is not None and hi is not None:
                    n = (max(hi[0] - lo[1], 0), max(hi[1] - lo[0], 0))
                    sym = None
                    lh = self.linear_of_operand(st, hi_op) if hi_op is not None else None
                    ll = self.linear_of_operand(st, lo_op) if lo_op is not None else ({}, 0)
                    if lh is not None and ll is not None:
                        d = dict(lh[0])
                        for sk, c in ll[0].items():
                            d[sk] = d.get(sk, 0) - c
                        d = {sk: c for sk, c in d.items() if c != 0}
                        dc = lh[1] - ll[1]
                        if all(c > 0 for c in d.values()):
                            tot_lo, tot_hi = dc, dc
                            known = True
                            for sk, c in d.items():
                                v = st.get(sk) or self.read_place_key(st, sk)
                                if v is None:
                                    known = False
                                    break
                                tot_lo += c * max(v[0], 0)
                                tot_hi += c * v[1]
                            if known and tot_lo >= 0:
                                n = (max(n[0], tot_lo), min(n[1], tot_hi)) if tot_lo <= tot_hi else n
                            sym = (frozenset(d.items()), dc)
                    for k2 in [k2 for k2 in st if isinstance(k2[0], int) and k2[0] == dk[0] and k2[1][:len(dk[1])] == dk[1]]:
                        st.pop(k2)
                    for tag in ('len', 'some', 'issome', 'lensym', 'lenof'):
                        st.pop((tag, dk), None)
                    st[('len', dk)] = n
                    if sym is not None:
                        st[('lensym', dk)] = sym
                    rel.pop(dk, None)
                    return
        elif callee == 'core::default::Default::default' and not args and rng is not None and (dty or {}).get('k') in ('int', 'bool'):
            val = (0, 0)  # the default of every integer type (and `false`)
        elif callee in ('[T]::split_at', '[T]::split_at_mut', 'core::slice::<impl [T]>::split_at',
                        'core::slice::<impl [T]>::split_at_mut') and len(args) == 2:
            # (a, b) = s.split_at(mid): len(a) = mid, len(b) = len(s) - mid   (mid <= len(s) is the call's own check)
            val = None
            ln = self.len_of_ref_operand(st, args[0])
            mid = av[1]
            if ln is not None and mid is not None:
                a_len = (max(mid[0], 0), min(mid[1], ln[1]))
                b_len = (max(ln[0] - mid[1], 0), max(ln[1] - mid[0], 0))
                self._set_sub = [('len', (('f', 0, '0'), ), a_len), ('len', (('f', 1, '1'), ), b_len)]
        elif callee in ('[T]::iter', '[T]::iter_mut', 'core::slice::<impl [T]>::iter') and len(args) == 1:
            val = None
            ln = self.len_of_ref_operand(st, args[0])
            self._set_aux = ('len', ln)
        elif callee.endswith(('Iterator::rposition', 'Iterator::position')) and len(args) == 2:
            val = None
            p0 = op_place(args[0])
            ln = None
            if p0 is not None:
                tgt = self.refs.get(place_key(p0))
                for cand in (place_key(p0), tgt):
                    if cand is not None and ('len', cand) in st:
                        ln = st[('len', cand)]
            if ln is not None and ln[1] >= 1:
                self._set_aux = ('some', (0, ln[1] - 1))
        elif callee.endswith('IntoIterator::into_iter') and len(args) == 1 and op_place(args[0]) is not None and \
                (('range', place_key(op_place(args[0]))) in st or ('len', place_key(op_place(args[0]))) in st):
            # only for core ranges / arrays whose extent is known; every other iterator takes the generic path below
            val = None
            p0 = op_place(args[0])
            if ('range', place_key(p0)) in st:
                self._set_aux = ('range', st[('range', place_key(p0))])
            else:
                self._set_aux = ('len', st[('len', place_key(p0))])
        elif callee.endswith('Iterator::next') and len(args) == 1 and op_place(args[0]) is not None and \
                st.get(('range', self.root_of_ref(place_key(op_place(args[0]))))) is not None:
            val = None
            r0 = st.get(('range', self.root_of_ref(place_key(op_place(args[0])))))
            if r0[1] - 1 >= r0[0]:
                # `for i in a..b`: every value handed out lies in [a, b-1] (the iterator only moves forward)
                self._set_aux = ('some', (r0[0], r0[1] - 1))
        elif callee.endswith('RangeInclusive::contains') and len(args) == 2 and self.const_range_u8(args[0]) is not None:
            # `(a..=b).contains(&x)` with a promoted constant range of u8 (3 bytes: start, end, exhausted = 0)
            val = (0, 1)
            lo, hi = self.const_range_u8(args[0])
            p1 = op_place(args[1])
            if p1 is not None:
                newrel = ('inrange', self.root_of_ref(place_key(p1)), lo, hi)
        elif callee in ('core::convert::TryFrom::try_from', 'core::convert::TryInto::try_into') and len(args) == 1 and \
                av[0] is not None and (self.operand_ty(args[0]) or {}).get('k') == 'int':
            # integer narrowing: the Ok payload is the argument itself (when it fits)
            val = None
            drng_ = None
            try:
                dt_ = self.ty_of_place(dest) if isinstance(dest, dict) else None
                if dt_ and dt_.get('args'):
                    drng_ = type_range(self.fn.types[dt_['args'][0]])
            except Exception:
                drng_ = None
            pay_ = av[0]
            if drng_ is not None:
                m_ = meet(pay_, drng_)
                if m_ != 'empty':
                    pay_ = m_
                if av[0][0] >= drng_[0] and av[0][1] <= drng_[1]:
                    self._set_sub = [('issome', (), (1, 1))]  # the value fits: the conversion cannot fail
            self._set_aux = ('some', pay_)
        elif callee in ('core::result::Result::unwrap_or', 'core::option::Option::unwrap_or') and len(args) == 2 and \
                op_place(args[0]) is not None:
            k0_ = place_key(op_place(args[0]))
            pay_ = st.get(('some', k0_))
            if pay_ is not None and ('issome', k0_) in st:
                val = pay_ if pay_[0] <= pay_[1] else rng
            elif pay_ is not None and av[1] is not None and pay_[0] <= pay_[1]:
                val = join(pay_, av[1])
            else:
                val = rng
        elif callee == 'core::ops::try_trait::Try::branch' and len(args) == 1 and op_place(args[0]) is not None and \
                ('some', place_key(op_place(args[0]))) in st:
            # `opt?` / `res?`: the Continue payload is the Some / Ok payload
            val = None
            self._set_aux = ('some', st[('some', place_key(op_place(args[0])))])
        elif callee.endswith('FromResidual::from_residual') and (dty or {}).get('path') == 'core::option::Option':
            val = None
            self._set_aux = ('some', EMPTY_IV)  # `None?` yields None
        elif callee == 'char::to_digit' and len(args) == 2:
            val = None
            r = av[1]
            if r is not None and r[1] >= 1:
                self._set_aux = ('some', (0, r[1] - 1))
        elif callee == 'char::from_digit' and len(args) == 2:
            val = None
            d, r = av
            if d is not None and r is not None and d[1] < r[0] and r[1] <= 36:
                self._set_aux = ('issome', (1, 1))
        elif callee in ('core::option::Option::map_or', 'core::option::Option::map') and len(args) >= 2:
            # result = default | closure(payload)
            p0 = op_place(args[0])
            payload = st.get(('some', place_key(p0))) if p0 is not None else None
            clo = args[-1]
            cty = self.operand_ty(clo)
            cret = None
            if payload is not None and cty is not None and cty['k'] == 'closure' and cty['def'] in self.facts.fns:
                cf = self.facts.fns[cty['def']]
                self.modelled_closures.add(cty['def'])
                sub = Analysis(self.facts, cf, FnCtx({2: payload}, self.ctx.fields, self.ctx.used), self.summaries,
                               self.depth + 1, collector=self.collector)
                cret = sub.ret
            if callee.endswith('map_or'):
                dflt = av[1]
                val = join(dflt, cret) if (dflt is not None and cret is not None) else rng
            else:
                val = None
                if cret is not None:
                    self._set_aux = ('some', cret)
        elif callee.endswith(('Iterator::find', 'Iterator::position', 'Iterator::any', 'Iterator::all')) and len(args) == 2 and \
                op_place(args[0]) is not None and \
                st.get(('range', self.root_of_ref(place_key(op_place(args[0]))))) is not None:
            # `(a..b).find(|&i| ..)`: the closure sees items in [a, b-1] (by reference for find) and a found item lies there
            r0 = st.get(('range', self.root_of_ref(place_key(op_place(args[0])))))
            val = (0, 1) if short in ('any', 'all') else None
            cty = self.operand_ty(args[1])
            if r0[1] - 1 >= r0[0]:
                item = (r0[0], r0[1] - 1)
                if cty is not None and cty['k'] == 'closure' and cty['def'] in self.facts.fns:
                    cf = self.facts.fns[cty['def']]
                    self.modelled_closures.add(cty['def'])
                    pty = cf.local_ty(2) if cf.argc >= 2 else None
                    pkey = (2, (('deref', ), )) if pty and pty.get('k') == 'ref' else 2
                    Analysis(self.facts, cf, FnCtx({pkey: item}, self.ctx.fields, self.ctx.used), self.summaries,
                             self.depth + 1, collector=self.collector)
                if short == 'find':
                    self._set_aux = ('some', item)
        elif short == 'div_ceil' and len(args) == 2 and callee.split('::')[0] in ('u8', 'u16', 'u32', 'u64', 'usize', 'core'):
            a, b = av
            if a is not None and b is not None and b[0] >= 1 and a[0] >= 0:
                val = (-(-a[0] // b[1]), -(-a[1] // b[0]))
                if rng is not None:
                    val = clip(val, rng)
        elif short in ('saturating_sub', 'wrapping_sub') and len(args) == 2:
            a, b = av
            if a is not None and b is not None and short == 'saturating_sub':
                val = (max(a[0] - b[1], rng[0] if rng else 0), max(a[1] - b[0], rng[0] if rng else 0))
        elif short == 'trailing_zeros' or short == 'leading_zeros' or short == 'count_ones':
            aty = self.operand_ty(args[0])
            bits = (aty or {}).get('bits', 128)
            val = (0, bits)
        elif short == 'next_power_of_two' and len(args) == 1:
            a = av[0]
            if a is not None and rng is not None:
                hi = 1 << max(a[1] - 1, 0).bit_length() if a[1] > 1 else 1
                val = clip((max(a[0], 1), hi), rng)
        elif short in ('to_le_bytes', 'from_le_bytes'):
            val = rng
        else:
            tgt_name, tgt_inst = self.resolve_callee(blk, callee)
            if tgt_name is not None and self.depth < 12:
                self._last_summary_key = None
                # a call whose result only feeds the condition of a `debug_assert!` is not there in a release build: what can
                # panic inside it is the assertion's business (listed with it), not a site of the function under analysis
                collect_ = True
                if self.collector is not None and not dest['p']:
                    dc_ = self.__dict__.setdefault('_dbg_only', {})
                    if dest['l'] not in dc_:
                        try:
                            from rules.panics import feeds_only_debug_assert
                            dc_[dest['l']] = feeds_only_debug_assert(self.fn, {dest['l']})
                        except Exception:
                            dc_[dest['l']] = False
                    collect_ = not dc_[dest['l']]
                r, est = self.summary(tgt_name, tgt_inst, args, av, st, collect=collect_)
                val = (r or rng) if rng is not None else None
                lk_ = getattr(self, '_last_summary_key', None)
                if lk_ is not None and rng is not None:
                    facts_ = []
                    for pidx in self.summaries.get(('rel', ) + lk_, ()):
                        if 1 <= pidx <= len(args):
                            for kk in self.keys_of(args[pidx - 1]):
                                facts_.append(('le', dk, kk))
                    if facts_:
                        self._call_facts = (getattr(self, '_call_facts', None) or []) + facts_
                if est:
                    self.pending[blk] = est
                    info_ok = [e for e, cbs in self.ok_edges.items() if blk in cbs]
                    if not info_ok:
                        # infallible callee: what it established holds right after the call
                        for k3, v3 in est.items():
                            st[('inv', ) + k3] = v3
        # havoc what the callee may modify through &mut arguments
        for a in args:
            p = op_place(a)
            if p is None:
                continue
            pt = self.ty_of_place(p)
            if pt and pt['k'] == 'ref' and pt.get('mut'):
                tgt = self.refs.get(place_key(p))
                roots = {place_key(p)[0]}
                if tgt is not None:
                    roots.add(tgt[0])
                for k2 in [k2 for k2 in st if isinstance(k2[0], int) and k2[0] in roots and k2[1]]:
                    st.pop(k2)
                if tgt is not None and tgt in st and not tgt[1]:
                    # a plain local lent mutably: its value is unknown afterwards
                    st.pop(tgt)
        for k2 in [k2 for k2 in st if isinstance(k2[0], int) and k2[0] == dk[0] and k2[1][:len(dk[1])] == dk[1]]:
            st.pop(k2)
        for tag in ('len', 'some', 'issome', 'lensym'):
            st.pop((tag, dk), None)
        for k2 in [k2 for k2 in st if k2 and k2[0] in ('len', 'some', 'issome', 'lensym', 'lenof') and isinstance(k2[1], tuple) and
                   len(k2[1]) == 2 and k2[1][0] == dk[0] and isinstance(k2[1][1], tuple) and k2[1][1][:len(dk[1])] == dk[1] and k2[1] != dk]:
            st.pop(k2)
        sa = getattr(self, '_set_aux', None)
        if sa is not None:
            st[(sa[0], dk)] = sa[1]
        self._set_aux = None
        for tag_, sub_, v_ in getattr(self, '_set_sub', None) or []:
            st[(tag_, (dk[0], dk[1] + sub_))] = v_  # facts about components of a returned tuple
        self._set_sub = None
        for k2 in [k2 for k2 in st if k2 and k2[0] in FACT_TAGS and dk in k2[1:]]:
            st.pop(k2)
        self.kill_slen(st, dk)
        st.pop(('lenof', dk), None)
        sa2 = getattr(self, '_set_aux2', None)
        if sa2 is not None:
            st[(sa2[0], dk)] = sa2[1]
        self._set_aux2 = None
        for f in getattr(self, '_call_facts', []) or []:
            self.add_fact(st, f)
        self._call_facts = []
        if val is not None:
            st[dk] = val
        if newrel is not None:
            rel[dk] = newrel
        else:
            rel.pop(dk, None)
        for k2 in [k2 for k2, r in rel.items() if k2 != dk and mentions(r, dk)]:
            rel.pop(k2)

    def range_operand(self, st, o, blk, base_len, want_ops=False):
        """(start, end) intervals of a Range / RangeTo / RangeFrom aggregate operand"""
        from analyses import last_def_in_block
        rp = op_place(o)
        if rp is None or rp['p']:
            return None
        cur = blk
        d = None
        for _ in range(40):
            d = last_def_in_block(self.fn, cur, rp['l'])
            if d is not None:
                break
            ps = [x for x in self.fn.pred(cur) if x in self.fn.reachable()]
            if len(ps) != 1:
                return None
            cur = ps[0]
        if d is None or d['rv']['k'] != 'agg' or d['rv'].get('ak') != 'adt':
            return None
        st2 = st
        if cur != blk:
            st2, _ = self.state_before_term(cur)
            if st2 is None:
                return None
        raw = d['rv']['ops']
        ops = [self.read_operand(st2, x) for x in raw]
        adt = d['rv']['adt']
        res = None
        if adt.endswith('::Range'):
            res = (ops[0], ops[1], raw[0], raw[1])
        elif adt.endswith('::RangeTo'):
            res = ((0, 0), ops[0], None, raw[0])
        elif adt.endswith('::RangeFrom'):
            res = (ops[0], base_len, raw[0], None)
        elif adt.endswith('::RangeFull'):
            res = ((0, 0), base_len, None, None)
        if res is None:
            return None
        return res if want_ops else res[:2]

    def canon(self, pk):
        """a temp that is a plain copy of a longer-lived place stands for that place"""
        src = self.copy_src.get(pk) if hasattr(self, 'copy_src') else None
        out = src if src is not None else pk
        if out[1] and ('deref', ) in out[1] and hasattr(self, 'refs'):
            root = self.root_of_ref(out)
            if root != out and (not any(e == ('deref', ) for e in root[1]) or
                                (isinstance(root[0], int) and 1 <= root[0] <= self.fn.argc and root[1][:1] == (('deref', ), ) and
                                 not any(e == ('deref', ) for e in root[1][1:]))):
                out = root  # a copy of `*r`: stands for what r points to (also `(*param).field` reached through an alias)
        return out

    def kill_slen(self, st, lk):
        """a store to local L (or below it) ends every fact about the length of a slice held in L; a store through a
        pointer could retarget any slice reference whose address was taken, so it ends all of them"""
        through_ptr = bool(lk[1]) and lk[1][0] == ('deref', )
        for k2 in [k2 for k2 in st if k2 and k2[0] in ('lt', 'le') and isinstance(k2[2], tuple) and k2[2] and k2[2][0] == 'slen'
                   and (through_ptr or k2[2][1][0] == lk[0])]:
            st.pop(k2)

    def slice_ident(self, pk):
        """symbolic identity of the length of the slice a reference points to"""
        root = self.root_of_ref(pk)
        path = root[1]
        while path and path[-1] == ('deref', ):
            path = path[:-1]
        return ('slen', (root[0], path))

    def cast_preserves(self, st, rv):
        v = self.read_operand(st, rv['a'])
        trng = type_range(self.fn.ty(rv['to']))
        return v is not None and trng is not None and v[0] >= trng[0] and v[1] <= trng[1]

    def sum_fact(self, zkey, ao, bo):
        """z = x + y with x a place and y a place or a constant"""
        ap, bp = op_place(ao), op_place(bo)
        ac, bc = op_const(ao), op_const(bo)
        if ap is not None and bp is not None:
            return ('sum', zkey, self.canon(place_key(ap)), self.canon(place_key(bp)))
        if ap is not None and bc is not None and bc.get('val') is not None:
            return ('sum', zkey, self.canon(place_key(ap)), ('const', bc['val']))
        if bp is not None and ac is not None and ac.get('val') is not None:
            return ('sum', zkey, self.canon(place_key(bp)), ('const', ac['val']))
        return None

    def add_fact(self, st, f):
        if f is None:
            return
        st[f] = (1, 1)
        if f[0] == 'lt':
            st[('le', f[1], f[2])] = (1, 1)  # the weaker fact survives a join with a path that only knows `<=`
        if f[0] in ('lt', 'le'):
            # transitive closure one step: x <= y, y <= z  =>  x <= z
            for k2 in [k2 for k2 in list(st) if k2 and k2[0] in ('lt', 'le') and k2[1] == f[2]]:
                tag = 'lt' if 'lt' in (f[0], k2[0]) else 'le'
                st[(tag, f[1], k2[2])] = (1, 1)

    def param_alias(self, key, depth=0):
        """parameter index whose value the plain local `key` equals (through moves and value-preserving casts)"""
        if depth > 6 or not isinstance(key, tuple) or len(key) != 2 or key[1]:
            return None
        l = key[0]
        if not isinstance(l, int):
            return None
        if 1 <= l <= self.fn.argc:
            return l
        defs = []
        for bi in self.fn.reachable():
            for s_ in self.fn.blocks[bi]['stmts']:
                if s_['k'] == 'assign' and s_['lhs']['l'] == l and not s_['lhs']['p']:
                    defs.append(s_['rv'])
            t_ = self.fn.blocks[bi]['term']
            if t_['k'] == 'call' and t_['dest']['l'] == l and not t_['dest']['p']:
                return None
        if len(defs) != 1 or defs[0]['k'] not in ('use', 'cast'):
            return None
        q = op_place(defs[0]['a'])
        if q is None or q['p']:
            return None
        if defs[0]['k'] == 'cast':
            src, dst = type_range(self.fn.local_ty(q['l'])), type_range(self.fn.local_ty(l))
            if src is None or dst is None or src[0] < dst[0] or src[1] > dst[1]:
                return None
        return self.param_alias((q['l'], ()), depth + 1)

    def keys_of(self, o):
        p = op_place(o)
        if p is None:
            return set()
        return {place_key(p), self.canon(place_key(p))}

    def known_lt(self, st, xo, yo):
        """is operand x known to be strictly below operand y?"""
        return any(('lt', x, y) in st for x in self.keys_of(xo) for y in self.keys_of(yo))

    def known_le(self, st, xo, yo):
        xs, ys = self.keys_of(xo), self.keys_of(yo)
        if xs & ys:
            return True
        return any((tag, x, y) in st for tag in ('lt', 'le') for x in xs for y in ys)

    def linear(self, st, key, depth=0):
        """({symbol_key: coeff}, const) expansion of a place through z = x + y facts"""
        if isinstance(key, tuple) and key and key[0] == 'const':
            return {}, key[1]
        if depth < 6:
            for k2 in st:
                if k2 and k2[0] == 'sum' and k2[1] == key:
                    a, ca = self.linear(st, k2[2], depth + 1)
                    b, cb = self.linear(st, k2[3], depth + 1)
                    out = dict(a)
                    for sk, c in b.items():
                        out[sk] = out.get(sk, 0) + c
                    return out, ca + cb
        v = st.get(key)
        if v is not None and v[0] == v[1] and not (key and key[0] in FACT_TAGS):
            return {}, v[0]
        return {key: 1}, 0

    def linear_of_operand(self, st, o):
        c = op_const(o)
        if c is not None and c.get('val') is not None:
            return {}, c['val']
        p = op_place(o)
        if p is None:
            return None
        k0 = place_key(p)
        lf = self.linear(st, k0)
        if lf[0] == {k0: 1} and lf[1] == 0:
            lf = self.linear(st, self.canon(k0))
        return lf

    def sum_of(self, st, zo):
        """(x_key, y) if operand z is known to be x + y"""
        for z in self.keys_of(zo):
            for k2 in st:
                if k2 and k2[0] == 'sum' and k2[1] == z:
                    return k2[2], k2[3]
        return None

    def root_of_ref(self, pk):
        """follow reference locals (and reborrows `&*r`) back to the place they point to"""
        seen = set()
        for _ in range(16):
            if pk in seen:
                break
            seen.add(pk)
            if pk in self.refs:
                pk = self.refs[pk]
                continue
            if pk[1] and pk[1][0] == ('deref', ) and (pk[0], ()) in getattr(self, 'ref_alias', {}):
                # `*r` where r is a moved copy of the reference q: the same place as `*q`
                pk = (self.ref_alias[(pk[0], ())][0], pk[1])
                continue
            if pk[1] and pk[1][0] == ('deref', ) and (pk[0], ()) in self.refs:
                tgt = self.refs[(pk[0], ())]
                pk = (tgt[0], tgt[1] + pk[1][1:])
                continue
            # a reference stored in a field (closure environment): `*(clo.i)` is what capture i points to
            hit = False
            for k in range(len(pk[1]) - 1, 0, -1):
                pre = (pk[0], pk[1][:k])
                if pre in self.refs and pk[1][k] == ('deref', ):
                    tgt = self.refs[pre]
                    pk = (tgt[0], tgt[1] + pk[1][k + 1:])
                    hit = True
                    break
            if hit:
                continue
            break
        return pk

    def resolve_callee(self, blk, callee):
        facts = self.facts
        if self.inst is not None:
            for c, kind in facts.edge_at.get((self.inst, blk), ()):
                if kind == 'call':
                    nm = facts.instances[c]['fn']
                    f = facts.fns.get(nm)
                    if f is not None and f.crate == 'fatfs':
                        return nm, c
            return None, None
        f = facts.fns.get(callee)
        if f is not None and f.crate == 'fatfs':
            return callee, None
        return None, None

    def summary(self, callee, callee_inst, args, av, st, collect=True):
        cf = self.facts.fns[callee]
        if cf.argc != len(args):
            return None, None
        fields = dict(self.ctx.fields)
        for k3, v3 in st.items():
            if k3 and k3[0] == 'inv':
                fields[k3[1:]] = v3
        key = (callee, callee_inst, tuple(av), tuple(sorted(fields.items())),
               tuple(self.len_of_ref_operand(st, a) if op_place(a) is not None else None for a in args), bool(collect))
        if key in self.summaries:
            self._last_summary_key = key
            return self.summaries[key]
        self.summaries[key] = (None, None)  # recursion guard
        params = {i + 1: av[i] for i in range(len(av)) if av[i] is not None}
        lens = {}
        for i, a in enumerate(args):
            p0 = op_place(a)
            if p0 is not None:
                t0 = self.ty_of_place(p0)
                if t0 is not None and t0['k'] in ('ref', 'ptr'):
                    ln = self.len_of_ref_operand(st, a)
                    if ln != (0, (1 << 63) - 1):
                        lens[i + 1] = ln
        sub = Analysis(self.facts, cf, FnCtx(params, fields, self.ctx.used, lens), self.summaries, self.depth + 1,
                       inst=callee_inst, collector=self.collector if collect else None)
        self.summaries[key] = (sub.ret, sub.established)
        self.summaries[('rel', ) + key] = set(getattr(sub, 'ret_le_params', ()) or ())
        self._last_summary_key = key
        return self.summaries[key]

    # ---- refinement
    def refine(self, st, rel, cond_pk, truth, blk=None):
        r = rel.get(cond_pk)
        if r is None:
            return st
        st = dict(st)
        if r[0] == 'cmp':
            _, op, x, y = r
            if not truth:
                op = NEG[op]
            a = self.read_operand(st, x)
            b = self.read_operand(st, y)
            if a is None or b is None:
                return st
            na, nb = refine_cmp(op, a, b)
            if na == 'empty' or nb == 'empty':
                return None
            xp, yp = op_place(x), op_place(y)
            if xp is not None and yp is not None:
                xk, yk = self.canon(place_key(xp)), self.canon(place_key(yp))
                if op == 'Lt':
                    self.add_fact(st, ('lt', xk, yk))
                elif op == 'Gt':
                    self.add_fact(st, ('lt', yk, xk))
                elif op == 'Le':
                    self.add_fact(st, ('le', xk, yk))
                elif op == 'Ge':
                    self.add_fact(st, ('le', yk, xk))
            for o, nv in ((x, na), (y, nb)):
                p = op_place(o)
                if p is not None and nv is not None:
                    st[place_key(p)] = nv
                    # propagate to the place a temp was copied from
                    src = self.copy_src.get(place_key(p))
                    if src is None and blk is not None:
                        cl = self.copy_local.get(place_key(p))
                        if cl is not None and cl[1] == blk:
                            src = cl[0]  # copied in this very block and not reassigned since
                    if src is not None:
                        old = st.get(src, self.read_place_key(st, src))
                        m = meet(old, nv) if old is not None else nv
                        if m == 'empty':
                            return None
                        st[src] = m
        elif (r[0] == 'pow2' and truth) or (r[0] == 'notpow2' and not truth):
            p = op_place(r[1])
            if p is not None:
                for key in (place_key(p), self.copy_src.get(place_key(p))):
                    if key is None:
                        continue
                    old = st.get(key, self.read_place_key(st, key))
                    if old is not None:
                        # a power of two is at least 1 and at most the largest power of two in the range
                        hi = 1 << (old[1].bit_length() - 1) if old[1] >= 1 else 0
                        lo = max(old[0], 1)
                        lo = 1 << (lo - 1).bit_length()
                        m = meet(old, (lo, hi)) if lo <= hi else 'empty'
                        if m == 'empty':
                            return None
                        st[key] = m
        elif r[0] == 'inrange' and truth:
            key = r[1]
            old = st.get(key, self.read_place_key(st, key))
            if old is not None:
                m = meet(old, (r[2], r[3]))
                if m == 'empty':
                    return None
                st[key] = m
        elif r[0] == 'strempty':
            key = r[1]
            old = st.get(key, (0, (1 << 63) - 1))
            m = meet(old, (0, 0) if truth else (1, old[1]))
            if m == 'empty':
                return None
            st[key] = m
        return st

    def read_place_key(self, st, pk):
        if pk in st:
            return st[pk]
        p = key_to_place(pk)
        try:
            return self.read_place(st, p)
        except Exception:
            return None

    # ---- fixed point
    def run(self):
        fn = self.fn
        self.refs = {}
        self.ref_alias = {}  # reference local -> the reference local it is a moved copy of
        self.copy_src = {}
        self.len_src = {}
        # pre-pass: temps that are plain copies of a longer-lived place (so refinements flow back)
        for bi in fn.reachable():
            for s in fn.blocks[bi]['stmts']:
                if s['k'] == 'assign' and s['rv']['k'] == 'use' and not s['lhs']['p']:
                    p = op_place(s['rv']['a'])
                    if p is not None and 'c' in s['rv']['a']:
                        lk = place_key(s['lhs'])
                        if lk not in self.copy_src:
                            self.copy_src[lk] = place_key(p)
                        else:
                            self.copy_src[lk] = None
                if s['k'] == 'assign' and s['rv']['k'] == 'ref' and not s['lhs']['p']:
                    self.refs[place_key(s['lhs'])] = place_key(s['rv']['p'])
                if s['k'] == 'assign' and s['rv']['k'] == 'use' and not s['lhs']['p']:
                    p = op_place(s['rv']['a'])
                    if p is not None and p['p']:
                        lt = self.fn.local_ty(s['lhs']['l'])
                        if lt['k'] in ('ref', 'ptr') and place_key(s['lhs']) not in self.refs:
                            # a copy of a reference stored in a place (closure environment, struct field): it points
                            # to whatever that stored reference points to
                            self.refs[place_key(s['lhs'])] = (place_key(p)[0], place_key(p)[1] + (('deref', ), ))
                if s['k'] == 'assign' and s['rv']['k'] in ('use', 'cast') and not s['lhs']['p']:
                    p = op_place(s['rv']['a'])
                    if p is not None and not p['p']:
                        lt = self.fn.local_ty(s['lhs']['l'])
                        if lt['k'] in ('ref', 'ptr') and place_key(s['lhs']) not in self.refs:
                            # a moved / unsized copy of a reference points where the original points
                            self.refs[place_key(s['lhs'])] = place_key(p)
                            self.ref_alias[place_key(s['lhs'])] = place_key(p)
        for bi in fn.reachable():
            for s in fn.blocks[bi]['stmts']:
                if s['k'] == 'assign' and not s['lhs']['p'] and s['rv']['k'] == 'agg' and s['rv'].get('ak') == 'closure':
                    for i_, o_ in enumerate(s['rv']['ops']):
                        p_ = op_place(o_)
                        if p_ is not None and not p_['p'] and (p_['l'], ()) in self.refs:
                            self.refs[(s['lhs']['l'], (('f', i_, str(i_)), ))] = self.refs[(p_['l'], ())]
                            self.refs[(s['lhs']['l'], (('f', i_, None), ))] = self.refs[(p_['l'], ())]
        # a closure value that is moved (handed to a helper taking `impl FnOnce`, which was then made transparent) keeps what
        # its captures point to
        for _round in range(6):
            grew = False
            for bi in fn.reachable():
                for s in fn.blocks[bi]['stmts']:
                    if s['k'] == 'assign' and not s['lhs']['p'] and s['rv']['k'] == 'use':
                        p_ = op_place(s['rv']['a'])
                        if p_ is None or p_['p']:
                            continue
                        for k_ in [k_ for k_ in list(self.refs) if k_[0] == p_['l'] and k_[1] and k_[1][0][0] == 'f']:
                            nk = (s['lhs']['l'], k_[1])
                            if nk not in self.refs:
                                self.refs[nk] = self.refs[k_]
                                grew = True
            if not grew:
                break
        # a reference read back out of a closure environment (`x = (*env).i` in the body of a closure that was made
        # transparent): it points where capture i points
        for bi in fn.reachable():
            for s in fn.blocks[bi]['stmts']:
                if s['k'] == 'assign' and not s['lhs']['p'] and s['rv']['k'] == 'use':
                    p_ = op_place(s['rv']['a'])
                    if p_ is None or not p_['p'] or place_key(s['lhs']) in self.refs:
                        continue
                    lt_ = fn.local_ty(s['lhs']['l'])
                    if not lt_ or lt_.get('k') not in ('ref', 'ptr'):
                        continue
                    pk_ = place_key(p_)
                    if not any(e[0] == 'f' for e in pk_[1]):
                        continue
                    r_ = self.root_of_ref(pk_)
                    if r_ != pk_:
                        self.refs[place_key(s['lhs'])] = r_
        for bi in fn.reachable():
            t = fn.blocks[bi]['term']
            if t['k'] == 'call' and t.get('callee') in ('core::convert::From::from', 'core::convert::Into::into') and \
                    len(t['args']) == 1 and not t['dest']['p']:
                p = op_place(t['args'][0])
                dty = type_range(self.ty_of_place(t['dest']))
                sty = type_range(self.ty_of_place(p)) if p is not None else None
                if p is not None and dty is not None and sty is not None and sty[0] >= dty[0] and sty[1] <= dty[1]:
                    lk = place_key(t['dest'])
                    src = place_key(p)
                    # follow one more copy step (the argument is usually a temp copy of the real place)
                    src = self.copy_src.get(src) or src
                    self.copy_src[lk] = src if lk not in self.copy_src else None
        for bi in fn.reachable():
            t = fn.blocks[bi]['term']
            if t['k'] == 'call' and t.get('callee') in ('core::ops::index::Index::index',
                                                        'core::ops::index::IndexMut::index_mut') and not t['dest']['p']:
                p = op_place(t['args'][0])
                if p is not None and place_key(t['dest']) not in self.refs:
                    self.refs[place_key(t['dest'])] = place_key(p)  # a sub-slice points into its base
        # a temp assigned more than once is not a reliable alias
        counts = {}
        for bi in fn.reachable():
            for s in fn.blocks[bi]['stmts']:
                if s['k'] == 'assign':
                    counts[place_key(s['lhs'])] = counts.get(place_key(s['lhs']), 0) + 1
            t = fn.blocks[bi]['term']
            if t['k'] == 'call':
                counts[place_key(t['dest'])] = counts.get(place_key(t['dest']), 0) + 1
        for k2 in [k2 for k2, v in self.copy_src.items() if counts.get(k2, 0) > 1]:
            self.copy_src[k2] = None
        # the source of a copy must not be reassigned between copy and test: only trust sources assigned at most once
        # or parameters / field paths (checked conservatively: sources that are plain multi-assigned locals are dropped)
        self.copy_local = {}  # temp -> (src, blk, idx) for sources that are assigned more than once (loop variables)
        for k2, src in list(self.copy_src.items()):
            if src is not None and not src[1] and counts.get(src, 0) > 1:
                self.copy_src[k2] = None
                for bi in fn.reachable():
                    for si, s2 in enumerate(fn.blocks[bi]['stmts']):
                        if s2['k'] == 'assign' and place_key(s2['lhs']) == k2 and s2['rv']['k'] == 'use':
                            later = fn.blocks[bi]['stmts'][si + 1:]
                            if not any(x['k'] == 'assign' and place_key(x['lhs'])[0] == src[0] for x in later):
                                self.copy_local[k2] = (src, bi)
        init = {}
        for i, iv in self.ctx.params.items():
            if iv is not None:
                init[i if isinstance(i, tuple) else (i, ())] = iv
        for i, iv in self.ctx.lens.items():
            if iv is not None:
                init[('len', (i, ()))] = iv
        # relational struct invariants (rules/invariants.py): `a <= b` between two fields of a struct holds on entry of
        # every function that receives the struct (by reference or by value); the fact dies with the first store to
        # either field like any other fact
        for k3 in self.ctx.fields:
            if not (isinstance(k3, tuple) and len(k3) == 5 and k3[0] == 'rel' and k3[1] == 'le'):
                continue
            _, _, adt, fa, fb = k3
            a_def = self.facts.adts.get(adt)
            if not a_def or not a_def.get('variants'):
                continue
            names = [f['name'] for f in a_def['variants'][0]['fields']]
            if fa not in names or fb not in names:
                continue
            for i in range(1, fn.argc + 1):
                ty = fn.local_ty(i)
                pre = ()
                for _ in range(2):
                    if ty is not None and ty.get('k') in ('ref', 'ptr'):
                        ty = fn.types[ty['to']]
                        pre = pre + (('deref', ), )
                if ty is not None and ty.get('k') == 'adt' and ty.get('path') == adt:
                    ka = (i, pre + (('f', names.index(fa), fa), ))
                    kb = (i, pre + (('f', names.index(fb), fb), ))
                    init[('le', ka, kb)] = (1, 1)
                    self.ctx.used.add((adt, fa + '<=' + fb))
        heads = set(h for _, h in fn.back_edges())
        self.exit_blocks = []
        self.in_state = {0: (init, {})}
        visits = {}
        work = [0]
        exits = []
        steps = 0
        while work and steps < 6000:
            steps += 1
            b = work.pop(0)
            st, rel = self.in_state[b]
            st, rel = dict(st), dict(rel)
            blk = fn.blocks[b]
            for s in blk['stmts']:
                if s['k'] == 'assign':
                    self.assign(st, rel, s['lhs'], s['rv'], b)
            t = blk['term']
            k = t['k']
            outs = []
            if k == 'goto' or k == 'drop':
                outs = [(t['ret'], st, rel)]
            elif k == 'assert':
                p = op_place(t['cond'])
                ns = st
                if p is not None:
                    ns = self.refine(st, rel, place_key(p), t['expected'], b)
                    if ns is None:
                        ns = None
                if ns is not None:
                    # after a passed overflow assert the result is exact
                    outs = [(t['ret'], self.after_assert(ns, t), rel)]
            elif k == 'call':
                self.call(st, rel, t, b)
                if t.get('ret') is not None:
                    outs = [(t['ret'], st, rel)]
            elif k == 'switch':
                p = op_place(t['discr'])
                pk = place_key(p) if p is not None else None
                cur = self.read_operand(st, t['discr'])
                explicit = [v for v, _ in t['targets']]
                for v, tgt in t['targets']:
                    if cur is not None and not (cur[0] <= v <= cur[1]):
                        continue
                    ns = dict(st)
                    if pk is not None:
                        ns[pk] = (v, v)
                        src = self.copy_src.get(pk)
                        if src is not None:
                            ns[src] = (v, v)
                        if pk in rel and self.is_bool(pk):
                            ns2 = self.refine(ns, rel, pk, bool(v), b)
                            if ns2 is None:
                                continue
                            ns = ns2
                    outs.append((tgt, ns, rel))
                # otherwise arm
                ns = dict(st)
                feasible = True
                if cur is not None:
                    rest = [x for x in range(cur[0], min(cur[1], cur[0] + 64) + 1) if x not in explicit] \
                        if cur[1] - cur[0] < 64 else [None]
                    if not rest:
                        feasible = False
                    elif rest != [None] and pk is not None:
                        ns[pk] = (min(rest), max(rest))
                        src = self.copy_src.get(pk)
                        if src is not None:
                            ns[src] = ns[pk]
                if feasible:
                    if pk is not None and pk in rel and self.is_bool(pk) and explicit == [0]:
                        ns2 = self.refine(ns, rel, pk, True, b)
                        if ns2 is None:
                            feasible = False
                        else:
                            ns = ns2
                    elif pk is not None and pk in rel and self.is_bool(pk) and explicit == [1]:
                        ns2 = self.refine(ns, rel, pk, False, b)
                        if ns2 is None:
                            feasible = False
                        else:
                            ns = ns2
                if feasible:
                    outs.append((t['otherwise'], ns, rel))
            elif k == 'return':
                exits.append(st)
                self.exit_blocks.append(b)
            for tgt, ns, nrel in outs:
                for cb in self.ok_edges.get((b, tgt), ()):
                    est = self.pending.get(cb)
                    if est:
                        ns = dict(ns)
                        for k3, v3 in est.items():
                            old3 = ns.get(('inv', ) + k3)
                            m3 = meet(old3, v3) if old3 is not None else v3
                            if m3 != 'empty':
                                ns[('inv', ) + k3] = m3
                old = self.in_state.get(tgt)
                if old is None:
                    self.in_state[tgt] = (dict(ns), dict(nrel))
                    work.append(tgt)
                    continue
                ost, orel = old
                merged = {}
                changed = False
                for key in set(ost) & set(ns):
                    j = join(ost[key], ns[key])
                    merged[key] = j
                    if j != ost[key]:
                        changed = True
                if set(ost) - set(ns):
                    changed = True
                mrel = {key: r for key, r in orel.items() if nrel.get(key) == r}
                if len(mrel) != len(orel):
                    changed = True
                if changed:
                    visits[tgt] = visits.get(tgt, 0) + 1
                    if tgt in heads and visits[tgt] > 3:
                        # widening: bounds that moved go to the type range
                        for key in list(merged):
                            if merged[key] != ost.get(key):
                                rng = self.type_range_of_key(key)
                                if rng is None:
                                    merged.pop(key)
                                else:
                                    o = ost.get(key)
                                    lo = merged[key][0] if o and merged[key][0] == o[0] else rng[0]
                                    hi = merged[key][1] if o and merged[key][1] == o[1] else rng[1]
                                    merged[key] = (lo, hi)
                    self.in_state[tgt] = (merged, mrel)
                    if tgt not in work:
                        work.append(tgt)
        # return interval
        r = None
        first = True
        for st in exits:
            v = st.get((0, ()))
            if v is None:
                v = type_range(self.fn.local_ty(0))
            if v is None:
                r = None
                first = False
                break
            r = v if first else join(r, v)
            first = False
        self.ret = r
        # relational summary: parameters the returned integer is known not to exceed at every exit (e.g. a helper
        # `fn clamp(&self, len) -> usize { len.min(..) }`), so that callers keep `result <= argument`
        self.ret_le_params = None
        for stx in exits:
            ps = set()
            for k3 in stx:
                if k3 and k3[0] in ('le', 'lt') and k3[1] == (0, ()):
                    pa = self.param_alias(k3[2])
                    if pa is not None:
                        ps.add(pa)
            self.ret_le_params = ps if self.ret_le_params is None else (self.ret_le_params & ps)
        self.ret_le_params = self.ret_le_params or set()
        self.converged = not work
        self.established = self.compute_established()
        if self.collector is not None and self.depth < 10:
            for bi in fn.reachable():
                for s2 in fn.blocks[bi]['stmts']:
                    if s2['k'] == 'assign' and s2['rv']['k'] == 'agg' and s2['rv'].get('ak') == 'closure':
                        cd = s2['rv']['def']
                        if cd in self.modelled_closures:
                            continue  # invoked through a modelled combinator with a known argument range
                        cf = self.facts.fns.get(cd)
                        key = ('closure', cd, tuple(sorted(self.ctx.fields.items())))
                        caps = self.capture_params(bi, s2, cf) if cf is not None else {}
                        key = ('closure', cd, tuple(sorted(self.ctx.fields.items())), tuple(sorted(caps.items(), key=str)))
                        if cf is not None and key not in self.summaries:
                            self.summaries[key] = (None, None)
                            Analysis(self.facts, cf, FnCtx(caps, self.ctx.fields, self.ctx.used), self.summaries,
                                     self.depth + 1, collector=self.collector)

    def capture_params(self, blk, stmt, cf):
        """initial facts for a closure body about the integer values it captures: the closure is built at `stmt` in
        block blk; capture i is field i of its environment (parameter 1, by reference for Fn / FnMut), itself a
        reference when the variable is captured by reference"""
        out = {}
        st, rel = self.state_before_term(blk)
        if st is None or cf.argc < 1:
            return out
        env_ty = cf.local_ty(1)
        env_by_ref = bool(env_ty) and env_ty.get('k') == 'ref'
        for i, o in enumerate(stmt['rv']['ops']):
            p = op_place(o)
            if p is None:
                continue
            oty = self.ty_of_place(p)
            by_ref = bool(oty) and oty.get('k') == 'ref'
            if by_ref:
                tgt = self.root_of_ref(place_key(p))
                if tgt == place_key(p):
                    continue
                v = st.get(tgt)
                if v is None:
                    try:
                        v = self.read_place(st, key_to_place(tgt))
                    except Exception:
                        v = None
                vty = None
                try:
                    vty = self.ty_of_place(key_to_place(tgt))
                except Exception:
                    pass
            else:
                v = self.read_operand(st, o)
                vty = oty
            if v is None or not vty or vty.get('k') != 'int' or v == type_range(vty):
                continue
            path = ((('deref', ), ) if env_by_ref else ()) + (('f', i, str(i)), ) + ((('deref', ), ) if by_ref else ())
            out[(1, path)] = v
        return out

    def compute_established(self):
        """field ranges of `*self` that hold at every Ok exit (refined by the function's own rejecting branches),
        plus invariants established by callees on those paths"""
        from analyses import error_blocks, place_prefix_type
        fn = self.fn
        eb = error_blocks(fn)
        reach_ok = fn.reach_from([0], cut_blocks=eb)
        est = None
        rets = [r for r in fn.return_blocks() if r in reach_ok and r in self.in_state]
        if not rets:
            return {}
        # states flowing into the return block(s) from non-error predecessors
        states = []
        for r in rets:
            preds = [p for p in fn.pred(r) if p in reach_ok and p not in eb and p in self.in_state]
            if not preds:
                states.append(self.in_state[r][0])
            for p in preds:
                st, rel = self.state_before_term(p)
                if st is not None:
                    states.append(st)
        for st in states:
            cur = {}
            for k3, v3 in st.items():
                if k3 and k3[0] == 'inv':
                    cur[k3[1:]] = v3
                elif isinstance(k3[0], int) and k3[0] == 1 and len(k3[1]) >= 2 and k3[1][0] == ('deref', ) and \
                        k3[1][-1][0] == 'f':
                    p = key_to_place(k3)
                    owner = place_prefix_type(fn, p, len(p['p']) - 1)
                    rng = type_range(self.ty_of_place(p))
                    if owner is not None and owner['k'] == 'adt' and rng is not None and v3 != rng:
                        key = (owner['path'], k3[1][-1][2])
                        cur[key] = v3 if key not in cur else meet(cur[key], v3)
            if est is None:
                est = cur
            else:
                est = {k3: join(est[k3], cur[k3]) for k3 in est if k3 in cur and est[k3] != 'empty' and cur[k3] != 'empty'}
        out = {k3: v3 for k3, v3 in (est or {}).items() if v3 != 'empty'}
        for r in getattr(self.facts, 'relations', []):
            if r['establisher'] == fn.name and relation_anchor_holds(self.facts, r):
                out[('flag', r['flag'])] = (1, 1)
        return out

    def flags(self, st):
        out = {k3[2] for k3 in st if k3 and k3[0] == 'inv' and k3[1] == 'flag'}
        out |= {k3[1] for k3 in self.ctx.fields if k3 and k3[0] == 'flag'}
        return out

    def is_bool(self, pk):
        p = key_to_place(pk)
        t = self.ty_of_place(p)
        return bool(t and t['k'] == 'bool')

    def type_range_of_key(self, key):
        if key and key[0] in ('lt', 'le', 'sum', 'inv', 'issome', 'lensym', 'lenof'):
            return None
        if key and key[0] in ('len', 'some', 'range'):
            return None
        if not isinstance(key[0], int):
            return (0, (1 << 63) - 1)
        try:
            return type_range(self.ty_of_place(key_to_place(key)))
        except Exception:
            return None

    def after_assert(self, st, t):
        """the checked result of `a op b` is exact once the overflow assert passed"""
        msg = t['msg']
        if msg['kind'] != 'overflow' or len(msg['ops']) != 2:
            return st
        a = self.read_operand(st, msg['ops'][0])
        b = self.read_operand(st, msg['ops'][1])
        r = arith(msg['op'], a, b)
        p = op_place(t['cond'])
        if r is None or p is None or not p['p']:
            return st
        pk = place_key(p)
        rk = (pk[0], pk[1][:-1] + (('f', 0, '0'), ))
        st = dict(st)
        rng = st.get(rk)
        aty = type_range(self.operand_ty(msg['ops'][0]))
        if aty is not None:
            m = meet(r, aty)
            if m != 'empty':
                st[rk] = m
        return st

    # ---- obligations
    def state_before_term(self, b):
        if b not in self.in_state:
            return None, None
        st, rel = self.in_state[b]
        st, rel = dict(st), dict(rel)
        for s in self.fn.blocks[b]['stmts']:
            if s['k'] == 'assign':
                self.assign(st, rel, s['lhs'], s['rv'], b)
        return st, rel

    def check_assert(self, b):
        """(verdict, explanation): verdict in {'ok', 'unreachable', 'fail'}"""
        t = self.fn.blocks[b]['term']
        st, rel = self.state_before_term(b)
        if st is None:
            return 'unreachable', 'block not reachable under the computed ranges'
        msg = t['msg']
        kind = msg['kind']
        ops = [self.read_operand(st, o) for o in msg['ops']]
        if kind == 'overflow':
            a, bb = ops
            aty = type_range(self.operand_ty(msg['ops'][0]))
            r = arith(msg['op'], a, bb)
            if msg['op'] in ('Shl', 'Shr'):
                bits = (self.operand_ty(msg['ops'][0]) or {}).get('bits')
                if bb is not None and bits and 0 <= bb[0] and bb[1] < bits:
                    return 'ok', 'shift amount %s < %d' % (fmt(bb), bits)
                return 'fail', 'shift amount %s not below the bit width %s' % (fmt(bb), bits)
            if r is not None and aty is not None and r[0] >= aty[0] and r[1] <= aty[1]:
                return 'ok', '%s %s %s = %s within %s' % (fmt(a), msg['op'], fmt(bb), fmt(r), fmt(aty))
            if msg['op'] == 'Sub' and aty is not None and aty[0] == 0 and self.known_lt(st, msg['ops'][1], msg['ops'][0]):
                return 'ok', 'subtrahend is known to be strictly below the minuend (x %% y < y or a preceding comparison)'
            if msg['op'] == 'Sub' and aty is not None and aty[0] == 0 and self.known_le(st, msg['ops'][1], msg['ops'][0]):
                return 'ok', 'subtrahend is known not to exceed the minuend (min() or a preceding comparison)'
            return 'fail', '%s %s %s = %s may leave %s' % (fmt(a), msg['op'], fmt(bb), fmt(r), fmt(aty))
        if kind == 'bounds':
            ln, ix = ops
            if ln is not None and ix is not None and ix[1] < ln[0] and ix[0] >= 0:
                return 'ok', 'index %s < len %s' % (fmt(ix), fmt(ln))
            if self.known_lt(st, msg['ops'][1], msg['ops'][0]):
                return 'ok', 'index is known to be strictly below the length by a preceding comparison'
            lp = op_place(msg['ops'][0])
            sl = getattr(self, 'slen_of', {}).get(place_key(lp)) if lp is not None else None
            if sl is not None and any(('lt', x, sl) in st for x in self.keys_of(msg['ops'][1])):
                return 'ok', 'index is below a count that never exceeds the length of this slice (n = s.len(); .. s[n - 1])'
            return 'fail', 'index %s not provably below len %s' % (fmt(ix), fmt(ln))
        if kind in ('div0', 'rem0'):
            d = None
            cp = op_place(t['cond'])
            r = rel.get(place_key(cp)) if cp is not None else None
            if r is not None and r[0] == 'cmp' and r[1] == 'Eq':
                z = self.read_operand(st, r[3])
                if z == (0, 0):
                    d = self.read_operand(st, r[2])
            if d is not None and (d[0] > 0 or d[1] < 0):
                return 'ok', 'divisor %s is non-zero' % fmt(d)
            return 'fail', 'divisor %s may be zero' % fmt(d)
        if kind == 'overflow_neg':
            a = ops[0]
            aty = type_range(self.operand_ty(msg['ops'][0]))
            if a is not None and aty is not None and a[0] > aty[0]:
                return 'ok', 'operand %s is not the minimum value' % fmt(a)
            return 'fail', 'operand %s may be the minimum value' % fmt(a)
        return 'fail', 'unsupported assert kind ' + kind


FACT_TAGS = ('lt', 'le', 'sum')
NEG = {'Eq': 'Ne', 'Ne': 'Eq', 'Lt': 'Ge', 'Ge': 'Lt', 'Gt': 'Le', 'Le': 'Gt'}


def fmt(iv):
    if iv is None:
        return '?'
    return '[%d, %d]' % iv if iv[0] != iv[1] else str(iv[0])


def decide_cmp(op, a, b):
    if op == 'Lt':
        return 1 if a[1] < b[0] else (0 if a[0] >= b[1] else None)
    if op == 'Le':
        return 1 if a[1] <= b[0] else (0 if a[0] > b[1] else None)
    if op == 'Gt':
        return 1 if a[0] > b[1] else (0 if a[1] <= b[0] else None)
    if op == 'Ge':
        return 1 if a[0] >= b[1] else (0 if a[1] < b[0] else None)
    if op == 'Eq':
        return 1 if a[0] == a[1] == b[0] == b[1] else (0 if a[1] < b[0] or b[1] < a[0] else None)
    if op == 'Ne':
        return 0 if a[0] == a[1] == b[0] == b[1] else (1 if a[1] < b[0] or b[1] < a[0] else None)
    return None


def refine_cmp(op, a, b):
    """intervals of a and b when `a op b` holds"""
    if op == 'Lt':
        return meet(a, (a[0], b[1] - 1)), meet(b, (a[0] + 1, b[1]))
    if op == 'Le':
        return meet(a, (a[0], b[1])), meet(b, (a[0], b[1]))
    if op == 'Gt':
        return meet(a, (b[0] + 1, a[1])), meet(b, (b[0], a[1] - 1))
    if op == 'Ge':
        return meet(a, (b[0], a[1])), meet(b, (b[0], a[1]))
    if op == 'Eq':
        m = meet(a, b)
        return m, m
    if op == 'Ne':
        na, nb = a, b
        if b[0] == b[1]:
            if a[0] == b[0] and a[1] == b[0]:
                return 'empty', 'empty'
            if a[0] == b[0]:
                na = (a[0] + 1, a[1])
            elif a[1] == b[0]:
                na = (a[0], a[1] - 1)
        if a[0] == a[1]:
            if b[0] == a[0] and b[1] == a[0]:
                return 'empty', 'empty'
            if b[0] == a[0]:
                nb = (b[0] + 1, b[1])
            elif b[1] == a[0]:
                nb = (b[0], b[1] - 1)
        return na, nb
    return a, b


def mentions(r, pk):
    for x in r[1:]:
        if isinstance(x, dict):
            p = op_place(x)
            if p is not None and place_key(p)[0] == pk[0]:
                return True
        elif isinstance(x, tuple) and len(x) == 2 and x[0] == pk[0]:
            return True
    return False


def key_to_place(pk):
    p = {'l': pk[0], 'p': []}
    for e in pk[1]:
        if e[0] == 'deref':
            p['p'].append({'deref': True})
        elif e[0] == 'f':
            p['p'].append({'f': e[1], 'n': e[2]})
        elif e[0] == 'dc':
            p['p'].append({'dc': e[1], 'vi': e[2]})
        elif e[0] == 'idx':
            p['p'].append({'idx': e[1]})
        elif e[0] == 'ci':
            p['p'].append({'ci': e[1], 'min': e[2], 'from_end': e[3]})
        else:
            p['p'].append({'other': True})
    return p


def relation_anchor_holds(facts, r):
    """machine-checked source of a relational invariant: the establisher contains the rejecting comparison"""
    fn = facts.fns.get(r['establisher'])
    if fn is None:
        return False
    a = r.get('anchor') or {}
    from analyses import Deps, switch_source, error_blocks
    deps = Deps(fn)
    eb = error_blocks(fn, none_is_failure=True)
    for bi in fn.reachable():
        t = fn.blocks[bi]['term']
        if t['k'] != 'switch':
            continue
        src = switch_source(fn, bi)
        if not src:
            continue
        if src['kind'] == 'binop' and src['op'] in a.get('ops', [src['op']]):
            toks = deps.of_operand(src['a']) | deps.of_operand(src['b'])
        elif src['kind'] == 'call' and (src.get('callee') or '').endswith(('PartialEq::eq', 'PartialEq::ne')) and \
                ({'Eq', 'Ne'} & set(a.get('ops', ['Eq']))):
            toks = set()
            for x in src['term']['args']:
                toks |= deps.of_operand(x)
            src = dict(src, a=src['term']['args'][0])
        else:
            continue
        need = a.get('depends_on', [])
        ok = True
        for n in need:
            kind, val = n
            if kind == 'const':
                ok = ok and ('const', val) in toks
            elif kind == 'field':
                ok = ok and ('field', val) in toks
            elif kind == 'call':
                from analyses import has_call
                ok = ok and has_call(toks, val)
            elif kind == 'op':
                ok = ok and ('op', val) in toks
        if not ok:
            continue
        if a.get('min_bits'):
            # the compared operands must be at least that wide (the sum is computed without wrap-around)
            from analyses import place_prefix_type
            p = op_place(src['a'])
            ty = place_prefix_type(fn, p, len(p['p'])) if p is not None else None
            if not ty or ty.get('bits', 0) < a['min_bits']:
                continue
        if a.get('guard_only'):
            return True
        if a.get('on_equal') in ('reject', 'accept'):
            # boundary: which arm is taken when both operands are equal, and does it reject?
            from analyses import nonzero_targets, zero_targets
            if src['kind'] == 'binop':
                eq_true = src['op'] in ('Ge', 'Le', 'Eq')
            else:
                eq_true = (src.get('callee') or '').endswith('::eq')
            arm = nonzero_targets(t) if eq_true else zero_targets(t)
            rets = set(fn.return_blocks())
            rejects = all(not (set(fn.reach_from([x], cut_blocks=eb)) & rets) or x in eb for x in arm) and bool(arm)
            if (a['on_equal'] == 'reject') != rejects:
                continue
        # one arm must lead to an error exit
        if any(s in eb or any(x in eb for x in fn.reach_from([s]) if x in eb) for s in fn.succ(bi)):
            return True
    return False
