// vf_driver: rustc_private fact extractor used as RUSTC_WRAPPER.
// It behaves as a normal rustc for every crate; additionally
//   * for crate `fatfs` it writes  $VF_OUT/api-fatfs.json   (public API surface, all fn names, safety audit)
//   * for crate `vf_witness` it writes $VF_OUT/facts.json   (bodies of every reachable fatfs/vf_witness fn,
//     monomorphic call graph from the `root_*` / `control_*` functions)
// The extractor never decides anything; all rules live in the Python checker.
#![feature(rustc_private)]
#![allow(clippy::all)]

extern crate rustc_abi;
extern crate rustc_driver;
extern crate rustc_hir;
extern crate rustc_interface;
extern crate rustc_middle;
extern crate rustc_span;

mod json;

use json::J;
use rustc_driver::Compilation;
use rustc_hir::def::DefKind;
use rustc_hir::def_id::{DefId, LOCAL_CRATE};
use rustc_hir::definitions::DefPathData;
use rustc_interface::interface::Compiler;
use rustc_middle::mir::{self, *};
use rustc_middle::ty::{self, Instance, InstanceKind, Ty, TyCtxt, TypingEnv};
use rustc_span::Span;
use std::collections::{BTreeMap, HashMap, HashSet};

struct Cb;

impl rustc_driver::Callbacks for Cb {
    fn after_analysis<'tcx>(&mut self, _c: &Compiler, tcx: TyCtxt<'tcx>) -> Compilation {
        let name = tcx.crate_name(LOCAL_CRATE).to_string();
        let out = std::env::var("VF_OUT").unwrap_or_default();
        if out.is_empty() {
            return Compilation::Continue;
        }
        if name == "fatfs" {
            let s = api_pass(tcx);
            std::fs::write(format!("{}/api-fatfs.json", out), s).expect("write api");
        } else if name == "vf_witness" {
            let s = witness_pass(tcx);
            std::fs::write(format!("{}/facts.json", out), s).expect("write facts");
        }
        Compilation::Continue
    }
}

fn main() {
    let mut args: Vec<String> = std::env::args().collect();
    // RUSTC_WRAPPER: argv[1] is the path of the real rustc
    if args.len() > 1 && (args[1].ends_with("rustc") || args[1].contains("/rustc")) {
        args.remove(1);
    }
    rustc_driver::run_compiler(&args, &mut Cb);
}

// ------------------------------------------------------------------------------------------------
// names

fn crate_of(tcx: TyCtxt<'_>, d: DefId) -> String {
    tcx.crate_name(d.krate).to_string()
}

fn plain_path(tcx: TyCtxt<'_>, d: DefId) -> String {
    let mut s = crate_of(tcx, d);
    for c in tcx.def_path(d).data {
        s.push_str("::");
        match c.data {
            DefPathData::Impl => s.push_str(&format!("{{impl#{}}}", c.disambiguator)),
            DefPathData::Closure => s.push_str(&format!("{{closure#{}}}", c.disambiguator)),
            other => {
                let n = other.to_string();
                s.push_str(&n);
                if c.disambiguator != 0 && !matches!(other, DefPathData::TypeNs(_) | DefPathData::ValueNs(_)) {
                    s.push_str(&format!("#{}", c.disambiguator));
                }
            }
        }
    }
    s
}

// short, generic-free rendering of a type used inside qualified names
fn ty_short<'tcx>(tcx: TyCtxt<'tcx>, t: Ty<'tcx>) -> String {
    match t.kind() {
        ty::Adt(def, args) => {
            let mut s = plain_path(tcx, def.did());
            let tys: Vec<Ty<'tcx>> = args.types().collect();
            if tys.iter().any(|a| !matches!(a.kind(), ty::Param(_))) {
                let parts: Vec<String> = tys
                    .iter()
                    .map(|a| if matches!(a.kind(), ty::Param(_)) { "_".to_string() } else { ty_short(tcx, *a) })
                    .collect();
                s.push_str(&format!("<{}>", parts.join(", ")));
            }
            s
        }
        ty::Param(p) => p.name.to_string(),
        ty::Ref(_, inner, m) => format!("&{}{}", if m.is_mut() { "mut " } else { "" }, ty_short(tcx, *inner)),
        ty::Slice(inner) => format!("[{}]", ty_short(tcx, *inner)),
        ty::Array(inner, _) => format!("[{}; N]", ty_short(tcx, *inner)),
        ty::Tuple(ts) if ts.is_empty() => "()".to_string(),
        _ => rustc_middle::ty::print::with_no_trimmed_paths!(format!("{}", t)),
    }
}

fn qname(tcx: TyCtxt<'_>, d: DefId) -> String {
    let kind = tcx.def_kind(d);
    match kind {
        DefKind::Closure | DefKind::InlineConst | DefKind::AnonConst | DefKind::SyntheticCoroutineBody => {
            let parent = tcx.parent(d);
            let key = tcx.def_key(d);
            return format!("{}::{{{}#{}}}", qname(tcx, parent), kind_tag(kind), key.disambiguated_data.disambiguator);
        }
        _ => {}
    }
    if matches!(kind, DefKind::AssocFn | DefKind::AssocConst { .. } | DefKind::AssocTy) {
        let parent = tcx.parent(d);
        let item = tcx.item_name(d).to_string();
        match tcx.def_kind(parent) {
            DefKind::Impl { of_trait } => {
                let self_ty = tcx.type_of(parent).instantiate_identity().skip_norm_wip();
                let st = ty_short(tcx, self_ty);
                if of_trait {
                    let tr = tcx.impl_trait_ref(parent).instantiate_identity().skip_norm_wip();
                    let mut trs = plain_path(tcx, tr.def_id);
                    // keep concrete trait type arguments (e.g. From<SeekFrom>)
                    let targs: Vec<Ty<'_>> = tr.args.types().skip(1).collect();
                    if !targs.is_empty() {
                        let parts: Vec<String> = targs.iter().map(|a| ty_short(tcx, *a)).collect();
                        trs.push_str(&format!("<{}>", parts.join(", ")));
                    }
                    return format!("<{} as {}>::{}", st, trs, item);
                }
                return format!("{}::{}", st, item);
            }
            DefKind::Trait => return format!("{}::{}", plain_path(tcx, parent), item),
            _ => {}
        }
    }
    plain_path(tcx, d)
}

fn kind_tag(k: DefKind) -> &'static str {
    match k {
        DefKind::Closure => "closure",
        DefKind::InlineConst => "inline_const",
        DefKind::AnonConst => "anon_const",
        _ => "synthetic",
    }
}

// ------------------------------------------------------------------------------------------------
// type table

struct Cx<'tcx> {
    tcx: TyCtxt<'tcx>,
    types: Vec<String>,                // json of each type
    type_ix: HashMap<Ty<'tcx>, usize>, // interned
    adts: BTreeMap<String, String>,    // adt path -> json
    adt_seen: HashSet<DefId>,
}

impl<'tcx> Cx<'tcx> {
    fn new(tcx: TyCtxt<'tcx>) -> Self {
        Cx { tcx, types: vec![], type_ix: HashMap::new(), adts: BTreeMap::new(), adt_seen: HashSet::new() }
    }

    fn ty(&mut self, t: Ty<'tcx>) -> usize {
        if let Some(i) = self.type_ix.get(&t) {
            return *i;
        }
        let ix = self.types.len();
        self.types.push(String::new());
        self.type_ix.insert(t, ix);
        let tcx = self.tcx;
        let mut j = J::obj();
        j.str("s", &rustc_middle::ty::print::with_no_trimmed_paths!(format!("{}", t)));
        match t.kind() {
            ty::Bool => j.str("k", "bool"),
            ty::Char => j.str("k", "char"),
            ty::Str => j.str("k", "str"),
            ty::Never => j.str("k", "never"),
            ty::Int(i) => {
                j.str("k", "int");
                j.num("bits", i.bit_width().unwrap_or(64) as i128);
                j.boolean("signed", true);
                j.boolean("ptr", i.bit_width().is_none());
            }
            ty::Uint(i) => {
                j.str("k", "int");
                j.num("bits", i.bit_width().unwrap_or(64) as i128);
                j.boolean("signed", false);
                j.boolean("ptr", i.bit_width().is_none());
            }
            ty::Adt(def, args) => {
                j.str("k", "adt");
                j.str("path", &plain_path(tcx, def.did()));
                let a: Vec<String> = args.types().map(|x| self.ty(x).to_string()).collect();
                j.raw("args", &format!("[{}]", a.join(",")));
                self.adt(def.did());
            }
            ty::Param(p) => {
                j.str("k", "param");
                j.str("name", p.name.as_str());
            }
            ty::Alias(al) => {
                j.str("k", "alias");
                j.str("def", &qname(tcx, al.kind.def_id()));
                let a: Vec<String> = al.args.types().map(|x| self.ty(x).to_string()).collect();
                j.raw("args", &format!("[{}]", a.join(",")));
            }
            ty::Ref(_, inner, m) => {
                j.str("k", "ref");
                j.num("to", self.ty(*inner) as i128);
                j.boolean("mut", m.is_mut());
            }
            ty::RawPtr(inner, m) => {
                j.str("k", "ptr");
                j.num("to", self.ty(*inner) as i128);
                j.boolean("mut", m.is_mut());
            }
            ty::Slice(inner) => {
                j.str("k", "slice");
                j.num("of", self.ty(*inner) as i128);
            }
            ty::Array(inner, len) => {
                j.str("k", "array");
                j.num("of", self.ty(*inner) as i128);
                match len.try_to_target_usize(tcx) {
                    Some(n) => j.num("len", n as i128),
                    None => j.null("len"),
                }
            }
            ty::Tuple(ts) => {
                j.str("k", "tuple");
                let a: Vec<String> = ts.iter().map(|x| self.ty(x).to_string()).collect();
                j.raw("of", &format!("[{}]", a.join(",")));
            }
            ty::Closure(d, _) => {
                j.str("k", "closure");
                j.str("def", &qname(tcx, *d));
            }
            ty::FnDef(d, _) => {
                j.str("k", "fndef");
                j.str("def", &qname(tcx, *d));
            }
            ty::FnPtr(..) => j.str("k", "fnptr"),
            ty::Dynamic(..) => j.str("k", "dyn"),
            _ => j.str("k", "other"),
        }
        self.types[ix] = j.finish();
        ix
    }

    fn adt(&mut self, did: DefId) {
        if !self.adt_seen.insert(did) {
            return;
        }
        let tcx = self.tcx;
        let krate = crate_of(tcx, did);
        if krate != "fatfs" && krate != "vf_witness" {
            return;
        }
        let def = tcx.adt_def(did);
        let mut j = J::obj();
        j.str("kind", if def.is_enum() { "enum" } else if def.is_union() { "union" } else { "struct" });
        j.boolean("pub", tcx.visibility(did).is_public());
        let mut vs = J::arr();
        for v in def.variants() {
            let mut vj = J::obj();
            vj.str("name", v.name.as_str());
            if def.is_enum() {
                if let Some(vix) = def.variants().iter_enumerated().find(|(_, x)| x.def_id == v.def_id).map(|(i, _)| i) {
                    vj.num("discr", def.discriminant_for_variant(tcx, vix).val as i128);
                }
            }
            let mut fs = J::arr();
            for f in &v.fields {
                let mut fj = J::obj();
                fj.str("name", f.name.as_str());
                let fty = tcx.type_of(f.did).instantiate_identity().skip_norm_wip();
                fj.num("ty", self.ty(fty) as i128);
                fj.boolean("pub", f.vis.is_public());
                fs.push_raw(&fj.finish());
            }
            vj.raw("fields", &fs.finish());
            vs.push_raw(&vj.finish());
        }
        j.raw("variants", &vs.finish());
        self.adts.insert(plain_path(tcx, did), j.finish());
    }
}

// ------------------------------------------------------------------------------------------------
// spans

fn span_json(tcx: TyCtxt<'_>, sp: Span) -> String {
    let sm = tcx.sess.source_map();
    let mut j = J::obj();
    let call = sp.source_callsite();
    let lo = sm.lookup_char_pos(call.lo());
    let fname = format!("{}", lo.file.name.prefer_local_unconditionally());
    j.str("file", &fname);
    j.num("line", lo.line as i128);
    j.num("col", lo.col.0 as i128 + 1);
    let snip = sm.span_to_snippet(call).unwrap_or_default();
    let mut norm = String::new();
    let mut last_ws = false;
    for ch in snip.chars() {
        if ch.is_whitespace() {
            if !last_ws {
                norm.push(' ');
            }
            last_ws = true;
        } else {
            norm.push(ch);
            last_ws = false;
        }
        if norm.len() > 160 {
            break;
        }
    }
    j.str("snip", &norm);
    if sp.from_expansion() {
        // outermost expansion
        let mut s = sp;
        let mut name = String::new();
        while s.from_expansion() {
            let d = s.ctxt().outer_expn_data();
            name = match d.kind {
                rustc_span::ExpnKind::Macro(_, n) => n.to_string(),
                rustc_span::ExpnKind::Desugaring(k) => format!("desugar:{:?}", k),
                rustc_span::ExpnKind::AstPass(k) => format!("astpass:{:?}", k),
                rustc_span::ExpnKind::Root => "root".to_string(),
            };
            s = d.call_site;
        }
        j.str("expn", &name);
        // innermost expansion (e.g. `?` inside a macro)
        let d0 = sp.ctxt().outer_expn_data();
        let inner = match d0.kind {
            rustc_span::ExpnKind::Macro(_, n) => n.to_string(),
            rustc_span::ExpnKind::Desugaring(k) => format!("desugar:{:?}", k),
            _ => String::new(),
        };
        j.str("expn_inner", &inner);
    } else {
        j.null("expn");
    }
    j.finish()
}

// ------------------------------------------------------------------------------------------------
// body facts

fn scalar_of_const<'tcx>(tcx: TyCtxt<'tcx>, env: TypingEnv<'tcx>, c: &mir::Const<'tcx>) -> Option<(u128, u64)> {
    let ty = c.ty();
    if !(ty.is_integral() || ty.is_bool() || ty.is_char()) {
        return None;
    }
    let si = c.try_eval_scalar_int(tcx, env)?;
    let size = si.size();
    Some((si.to_bits(size), size.bits()))
}

fn place_json<'tcx>(cx: &mut Cx<'tcx>, body: &Body<'tcx>, p: &Place<'tcx>) -> String {
    let tcx = cx.tcx;
    let mut j = J::obj();
    j.num("l", p.local.as_usize() as i128);
    let mut pj = J::arr();
    for (base, elem) in p.iter_projections() {
        let mut e = J::obj();
        match elem {
            ProjectionElem::Deref => e.boolean("deref", true),
            ProjectionElem::Field(f, _) => {
                e.num("f", f.as_usize() as i128);
                let bt = base.ty(body, tcx);
                let mut name: Option<String> = None;
                if let ty::Adt(def, _) = bt.ty.kind() {
                    let vi = bt.variant_index.unwrap_or(rustc_abi::FIRST_VARIANT);
                    if vi.as_usize() < def.variants().len() {
                        let v = def.variant(vi);
                        if f.as_usize() < v.fields.len() {
                            name = Some(v.fields[f].name.to_string());
                        }
                    }
                }
                match name {
                    Some(n) => e.str("n", &n),
                    None => e.null("n"),
                }
            }
            ProjectionElem::Downcast(name, vi) => {
                e.num("vi", vi.as_usize() as i128);
                match name {
                    Some(n) => e.str("dc", n.as_str()),
                    None => e.null("dc"),
                }
            }
            ProjectionElem::Index(l) => e.num("idx", l.as_usize() as i128),
            ProjectionElem::ConstantIndex { offset, min_length, from_end } => {
                e.num("ci", offset as i128);
                e.num("min", min_length as i128);
                e.boolean("from_end", from_end);
            }
            ProjectionElem::Subslice { from, to, from_end } => {
                e.num("sub_from", from as i128);
                e.num("sub_to", to as i128);
                e.boolean("from_end", from_end);
            }
            _ => e.boolean("other", true),
        }
        pj.push_raw(&e.finish());
    }
    j.raw("p", &pj.finish());
    j.finish()
}

fn operand_json<'tcx>(cx: &mut Cx<'tcx>, env: TypingEnv<'tcx>, body: &Body<'tcx>, o: &Operand<'tcx>) -> String {
    let tcx = cx.tcx;
    let mut j = J::obj();
    match o {
        Operand::Copy(p) => j.raw("c", &place_json(cx, body, p)),
        Operand::Move(p) => j.raw("m", &place_json(cx, body, p)),
        Operand::Constant(c) => {
            let mut k = J::obj();
            let ty = c.const_.ty();
            k.num("ty", cx.ty(ty) as i128);
            k.str("s", &rustc_middle::ty::print::with_no_trimmed_paths!(format!("{}", c.const_)));
            match scalar_of_const(tcx, env, &c.const_) {
                Some((v, bits)) => {
                    k.num_u("val", v);
                    k.num("bits", bits as i128);
                }
                None => k.null("val"),
            }
            if let ty::FnDef(d, _) = ty.kind() {
                k.str("fn", &qname(tcx, *d));
            }
            if let mir::Const::Unevaluated(u, _) = c.const_ {
                k.str("path", &qname(tcx, u.def));
                // evaluated form of promoted / named constants that are not plain scalars (e.g. `&FatType::Fat32`)
                if scalar_of_const(tcx, env, &c.const_).is_none() {
                    if let Ok(cv) = c.const_.eval(tcx, env, c.span) {
                        // `&T` pointing into a constant allocation: dump the pointee bytes (small values only)
                        if let (mir::ConstValue::Scalar(rustc_middle::mir::interpret::Scalar::Ptr(ptr, _)), ty::Ref(_, inner, _)) =
                            (cv, ty.kind())
                        {
                            let (prov, off) = ptr.prov_and_relative_offset();
                            if let rustc_middle::mir::interpret::GlobalAlloc::Memory(a) = tcx.global_alloc(prov.alloc_id()) {
                                let alloc = a.inner();
                                let len = alloc.len();
                                let start = off.bytes() as usize;
                                if len <= 64 && start <= len {
                                    let bytes = alloc.inspect_with_uninit_and_ptr_outside_interpreter(start..len);
                                    let bs: Vec<String> = bytes.iter().map(|b| b.to_string()).collect();
                                    k.raw("ev_bytes", &format!("[{}]", bs.join(",")));
                                    k.num("ev_ty", cx.ty(*inner) as i128);
                                }
                            }
                        }
                    }
                }
            }
            j.raw("k", &k.finish());
        }
        #[allow(unreachable_patterns)]
        _ => j.boolean("other", true),
    }
    j.finish()
}

fn rvalue_json<'tcx>(cx: &mut Cx<'tcx>, env: TypingEnv<'tcx>, body: &Body<'tcx>, rv: &Rvalue<'tcx>) -> String {
    let tcx = cx.tcx;
    let mut j = J::obj();
    match rv {
        Rvalue::Use(o, ..) => {
            j.str("k", "use");
            j.raw("a", &operand_json(cx, env, body, o));
        }
        Rvalue::Repeat(o, n) => {
            j.str("k", "repeat");
            j.raw("a", &operand_json(cx, env, body, o));
            match n.try_to_target_usize(tcx) {
                Some(n) => j.num("n", n as i128),
                None => j.null("n"),
            }
        }
        Rvalue::Ref(_, bk, p) => {
            j.str("k", "ref");
            j.boolean("mut", matches!(bk, BorrowKind::Mut { .. }));
            j.raw("p", &place_json(cx, body, p));
        }
        Rvalue::RawPtr(_, p) => {
            j.str("k", "rawptr");
            j.raw("p", &place_json(cx, body, p));
        }
        Rvalue::Cast(kind, o, t) => {
            j.str("k", "cast");
            j.str("ck", &format!("{:?}", kind));
            j.raw("a", &operand_json(cx, env, body, o));
            j.num("from", cx.ty(o.ty(body, tcx)) as i128);
            j.num("to", cx.ty(*t) as i128);
        }
        Rvalue::BinaryOp(op, ab) => {
            j.str("k", "binop");
            j.str("op", &format!("{:?}", op));
            j.raw("a", &operand_json(cx, env, body, &ab.0));
            j.raw("b", &operand_json(cx, env, body, &ab.1));
        }
        Rvalue::UnaryOp(op, a) => {
            j.str("k", "unop");
            j.str("op", &format!("{:?}", op));
            j.raw("a", &operand_json(cx, env, body, a));
        }
        Rvalue::Discriminant(p) => {
            j.str("k", "discr");
            j.raw("p", &place_json(cx, body, p));
        }
        Rvalue::Aggregate(kind, ops) => {
            j.str("k", "agg");
            match &**kind {
                AggregateKind::Adt(did, vi, _, _, active) => {
                    j.str("ak", "adt");
                    j.str("adt", &plain_path(tcx, *did));
                    let def = tcx.adt_def(*did);
                    j.str("variant", def.variant(*vi).name.as_str());
                    j.num("vi", vi.as_usize() as i128);
                    let names: Vec<String> = match active {
                        Some(f) => vec![def.variant(*vi).fields[*f].name.to_string()],
                        None => def.variant(*vi).fields.iter().map(|f| f.name.to_string()).collect(),
                    };
                    let mut na = J::arr();
                    for n in names {
                        na.push_str(&n);
                    }
                    j.raw("fields", &na.finish());
                    cx.adt(*did);
                }
                AggregateKind::Tuple => j.str("ak", "tuple"),
                AggregateKind::Array(_) => j.str("ak", "array"),
                AggregateKind::Closure(d, _) => {
                    j.str("ak", "closure");
                    j.str("def", &qname(tcx, *d));
                }
                _ => j.str("ak", "other"),
            }
            let mut oa = J::arr();
            for o in ops.iter() {
                oa.push_raw(&operand_json(cx, env, body, o));
            }
            j.raw("ops", &oa.finish());
        }
        Rvalue::CopyForDeref(p) => {
            j.str("k", "use");
            let mut o = J::obj();
            o.raw("c", &place_json(cx, body, p));
            j.raw("a", &o.finish());
        }
        Rvalue::ThreadLocalRef(_) => j.str("k", "tls"),
        _ => j.str("k", "other"),
    }
    j.finish()
}

fn assert_json<'tcx>(cx: &mut Cx<'tcx>, env: TypingEnv<'tcx>, body: &Body<'tcx>, m: &AssertKind<Operand<'tcx>>) -> String {
    let mut j = J::obj();
    let mut ops = J::arr();
    match m {
        AssertKind::BoundsCheck { len, index } => {
            j.str("kind", "bounds");
            ops.push_raw(&operand_json(cx, env, body, len));
            ops.push_raw(&operand_json(cx, env, body, index));
        }
        AssertKind::Overflow(op, a, b) => {
            j.str("kind", "overflow");
            j.str("op", &format!("{:?}", op));
            ops.push_raw(&operand_json(cx, env, body, a));
            ops.push_raw(&operand_json(cx, env, body, b));
        }
        AssertKind::OverflowNeg(a) => {
            j.str("kind", "overflow_neg");
            ops.push_raw(&operand_json(cx, env, body, a));
        }
        AssertKind::DivisionByZero(a) => {
            j.str("kind", "div0");
            ops.push_raw(&operand_json(cx, env, body, a));
        }
        AssertKind::RemainderByZero(a) => {
            j.str("kind", "rem0");
            ops.push_raw(&operand_json(cx, env, body, a));
        }
        other => {
            j.str("kind", "other");
            j.str("detail", &format!("{:?}", std::mem::discriminant(other)));
        }
    }
    j.raw("ops", &ops.finish());
    j.finish()
}

fn fn_json<'tcx>(cx: &mut Cx<'tcx>, did: DefId) -> String {
    let tcx = cx.tcx;
    let body: &Body<'tcx> = tcx.instance_mir(InstanceKind::Item(did));
    let env = TypingEnv::post_analysis(tcx, did);
    let mut j = J::obj();
    j.str("crate", &crate_of(tcx, did));
    j.str("defpath", &plain_path(tcx, did));
    j.raw("span", &span_json(tcx, tcx.def_span(did)));
    let kind = tcx.def_kind(did);
    j.boolean("is_closure", matches!(kind, DefKind::Closure));
    if matches!(kind, DefKind::Fn | DefKind::AssocFn) {
        j.boolean("pub", tcx.visibility(did).is_public());
    } else {
        j.boolean("pub", false);
    }
    // impl info
    let mut impl_trait: Option<String> = None;
    let mut self_ty: Option<String> = None;
    if matches!(kind, DefKind::AssocFn) {
        let parent = tcx.parent(did);
        if let DefKind::Impl { of_trait } = tcx.def_kind(parent) {
            let st = tcx.type_of(parent).instantiate_identity().skip_norm_wip();
            self_ty = Some(ty_short(tcx, st));
            if of_trait {
                let tr = tcx.impl_trait_ref(parent).instantiate_identity().skip_norm_wip();
                impl_trait = Some(plain_path(tcx, tr.def_id));
            }
        } else if let DefKind::Trait = tcx.def_kind(parent) {
            impl_trait = Some(format!("default:{}", plain_path(tcx, parent)));
        }
    }
    match &impl_trait {
        Some(t) => j.str("impl_trait", t),
        None => j.null("impl_trait"),
    }
    match &self_ty {
        Some(t) => j.str("self_ty", t),
        None => j.null("self_ty"),
    }
    j.num("argc", body.arg_count as i128);
    // locals
    let mut names: HashMap<usize, String> = HashMap::new();
    for v in &body.var_debug_info {
        if let VarDebugInfoContents::Place(p) = &v.value {
            if p.projection.is_empty() {
                names.entry(p.local.as_usize()).or_insert_with(|| v.name.to_string());
            }
        }
    }
    let mut la = J::arr();
    for (l, d) in body.local_decls.iter_enumerated() {
        let mut lj = J::obj();
        lj.num("ty", cx.ty(d.ty) as i128);
        match names.get(&l.as_usize()) {
            Some(n) => lj.str("name", n),
            None => lj.null("name"),
        }
        la.push_raw(&lj.finish());
    }
    j.raw("locals", &la.finish());
    // closure upvar names
    if matches!(kind, DefKind::Closure) {
        let mut ua = J::arr();
        for v in &body.var_debug_info {
            if let VarDebugInfoContents::Place(p) = &v.value {
                if p.local.as_usize() == 1 && !p.projection.is_empty() {
                    let mut uj = J::obj();
                    uj.str("name", v.name.as_str());
                    uj.raw("place", &place_json(cx, body, p));
                    ua.push_raw(&uj.finish());
                }
            }
        }
        j.raw("upvars", &ua.finish());
    }
    // blocks
    let mut ba = J::arr();
    for (_bb, data) in body.basic_blocks.iter_enumerated() {
        let mut bj = J::obj();
        bj.boolean("cleanup", data.is_cleanup);
        let mut sa = J::arr();
        for st in &data.statements {
            match &st.kind {
                StatementKind::Assign(b) => {
                    let (p, rv) = &**b;
                    let mut sj = J::obj();
                    sj.str("k", "assign");
                    sj.raw("lhs", &place_json(cx, body, p));
                    sj.raw("rv", &rvalue_json(cx, env, body, rv));
                    sj.raw("span", &span_json(tcx, st.source_info.span));
                    sa.push_raw(&sj.finish());
                }
                StatementKind::SetDiscriminant { place, variant_index } => {
                    let mut sj = J::obj();
                    sj.str("k", "setdiscr");
                    sj.raw("lhs", &place_json(cx, body, place));
                    sj.num("vi", variant_index.as_usize() as i128);
                    sj.raw("span", &span_json(tcx, st.source_info.span));
                    sa.push_raw(&sj.finish());
                }
                StatementKind::StorageDead(l) => {
                    let mut sj = J::obj();
                    sj.str("k", "dead");
                    sj.num("l", l.as_usize() as i128);
                    sa.push_raw(&sj.finish());
                }
                StatementKind::Intrinsic(_) => {
                    let mut sj = J::obj();
                    sj.str("k", "intrinsic");
                    sa.push_raw(&sj.finish());
                }
                _ => {}
            }
        }
        bj.raw("stmts", &sa.finish());
        let term = data.terminator();
        let mut tj = J::obj();
        tj.raw("span", &span_json(tcx, term.source_info.span));
        match &term.kind {
            TerminatorKind::Goto { target } => {
                tj.str("k", "goto");
                tj.num("ret", target.as_usize() as i128);
            }
            TerminatorKind::SwitchInt { discr, targets } => {
                tj.str("k", "switch");
                tj.raw("discr", &operand_json(cx, env, body, discr));
                let mut ta = J::arr();
                for (v, t) in targets.iter() {
                    ta.push_raw(&format!("[{},{}]", v, t.as_usize()));
                }
                tj.raw("targets", &ta.finish());
                tj.num("otherwise", targets.otherwise().as_usize() as i128);
            }
            TerminatorKind::Return => tj.str("k", "return"),
            TerminatorKind::Unreachable => tj.str("k", "unreachable"),
            TerminatorKind::UnwindResume => tj.str("k", "resume"),
            TerminatorKind::UnwindTerminate(_) => tj.str("k", "terminate"),
            TerminatorKind::Drop { place, target, unwind, .. } => {
                tj.str("k", "drop");
                tj.raw("place", &place_json(cx, body, place));
                tj.num("pty", cx.ty(place.ty(body, tcx).ty) as i128);
                tj.num("ret", target.as_usize() as i128);
                if let UnwindAction::Cleanup(u) = unwind {
                    tj.num("unwind", u.as_usize() as i128);
                }
            }
            TerminatorKind::Call { func, args, destination, target, unwind, .. } => {
                tj.str("k", "call");
                let fty = func.ty(body, tcx);
                match fty.kind() {
                    ty::FnDef(d, ga) => {
                        tj.str("callee", &qname(tcx, *d));
                        tj.str("callee_crate", &crate_of(tcx, *d));
                        let mut ga_j = J::arr();
                        for t in ga.types() {
                            ga_j.push_raw(&cx.ty(t).to_string());
                        }
                        tj.raw("gargs", &ga_j.finish());
                    }
                    _ => tj.null("callee"),
                }
                tj.raw("func", &operand_json(cx, env, body, func));
                let mut aa = J::arr();
                for a in args.iter() {
                    aa.push_raw(&operand_json(cx, env, body, &a.node));
                }
                tj.raw("args", &aa.finish());
                tj.raw("dest", &place_json(cx, body, destination));
                tj.num("dest_ty", cx.ty(destination.ty(body, tcx).ty) as i128);
                match target {
                    Some(t) => tj.num("ret", t.as_usize() as i128),
                    None => tj.null("ret"),
                }
                if let UnwindAction::Cleanup(u) = unwind {
                    tj.num("unwind", u.as_usize() as i128);
                }
            }
            TerminatorKind::TailCall { func, args, .. } => {
                tj.str("k", "tailcall");
                let fty = func.ty(body, tcx);
                if let ty::FnDef(d, _) = fty.kind() {
                    tj.str("callee", &qname(tcx, *d));
                }
                let mut aa = J::arr();
                for a in args.iter() {
                    aa.push_raw(&operand_json(cx, env, body, &a.node));
                }
                tj.raw("args", &aa.finish());
            }
            TerminatorKind::Assert { cond, expected, msg, target, unwind } => {
                tj.str("k", "assert");
                tj.raw("cond", &operand_json(cx, env, body, cond));
                tj.boolean("expected", *expected);
                tj.raw("msg", &assert_json(cx, env, body, msg));
                tj.num("ret", target.as_usize() as i128);
                if let UnwindAction::Cleanup(u) = unwind {
                    tj.num("unwind", u.as_usize() as i128);
                }
            }
            TerminatorKind::FalseEdge { real_target, .. } => {
                tj.str("k", "goto");
                tj.num("ret", real_target.as_usize() as i128);
            }
            TerminatorKind::FalseUnwind { real_target, .. } => {
                tj.str("k", "goto");
                tj.num("ret", real_target.as_usize() as i128);
            }
            _ => tj.str("k", "other"),
        }
        bj.raw("term", &tj.finish());
        ba.push_raw(&bj.finish());
    }
    j.raw("blocks", &ba.finish());
    j.finish()
}

// ------------------------------------------------------------------------------------------------
// monomorphic walk

fn inst_has_body<'tcx>(tcx: TyCtxt<'tcx>, inst: Instance<'tcx>) -> bool {
    match inst.def {
        InstanceKind::Item(d) => {
            if tcx.is_foreign_item(d) {
                return false;
            }
            if tcx.intrinsic(d).is_some() {
                return false;
            }
            matches!(tcx.def_kind(d), DefKind::Fn | DefKind::AssocFn | DefKind::Closure | DefKind::Ctor(..))
                && tcx.is_mir_available(d)
        }
        InstanceKind::Intrinsic(_) | InstanceKind::Virtual(..) => false,
        _ => true,
    }
}

fn inst_kind_str(k: &InstanceKind<'_>) -> &'static str {
    match k {
        InstanceKind::Item(_) => "item",
        InstanceKind::Intrinsic(_) => "intrinsic",
        InstanceKind::VTableShim(_) => "vtable_shim",
        InstanceKind::ReifyShim(..) => "reify_shim",
        InstanceKind::FnPtrShim(..) => "fnptr_shim",
        InstanceKind::Virtual(..) => "virtual",
        InstanceKind::ClosureOnceShim { .. } => "closure_once_shim",
        InstanceKind::DropGlue(..) => "dropglue",
        InstanceKind::CloneShim(..) => "clone_shim",
        InstanceKind::FnPtrAddrShim(..) => "fnptr_addr_shim",
        _ => "other_shim",
    }
}

fn witness_pass<'tcx>(tcx: TyCtxt<'tcx>) -> String {
    let mut cx = Cx::new(tcx);
    let env = TypingEnv::fully_monomorphized();
    let mut ids: HashMap<Instance<'tcx>, usize> = HashMap::new();
    let mut insts: Vec<Instance<'tcx>> = vec![];
    let mut work: Vec<usize> = vec![];
    let mut roots: Vec<(String, usize)> = vec![];
    let mut edges: Vec<String> = vec![];
    let mut unresolved: Vec<String> = vec![];

    let mut intern = |i: Instance<'tcx>, insts: &mut Vec<Instance<'tcx>>, work: &mut Vec<usize>| -> usize {
        if let Some(x) = ids.get(&i) {
            return *x;
        }
        let id = insts.len();
        insts.push(i);
        ids.insert(i, id);
        work.push(id);
        id
    };

    for ld in tcx.mir_keys(()).iter() {
        let d = ld.to_def_id();
        if !matches!(tcx.def_kind(d), DefKind::Fn) {
            continue;
        }
        let name = tcx.item_name(d).to_string();
        if !(name.starts_with("root_") || name.starts_with("control_")) {
            continue;
        }
        if tcx.generics_of(d).requires_monomorphization(tcx) {
            continue;
        }
        let inst = Instance::mono(tcx, d);
        let id = intern(inst, &mut insts, &mut work);
        roots.push((plain_path(tcx, d), id));
    }

    let mut body_defs: Vec<DefId> = vec![];
    let mut body_seen: HashSet<DefId> = HashSet::new();
    let mut leaf: HashSet<usize> = HashSet::new();

    while let Some(id) = work.pop() {
        let inst = insts[id];
        if !inst_has_body(tcx, inst) {
            leaf.insert(id);
            continue;
        }
        if let InstanceKind::Item(d) = inst.def {
            let k = crate_of(tcx, d);
            if k == "vf_witness" && body_seen.insert(d) {
                body_defs.push(d);
            }
        }
        let body = tcx.instance_mir(inst.def);
        for (bb, data) in body.basic_blocks.iter_enumerated() {
            // reified function pointers / closures in statements
            for st in &data.statements {
                if let StatementKind::Assign(b) = &st.kind {
                    if let Rvalue::Cast(CastKind::PointerCoercion(pc, _), op, _) = &b.1 {
                        use rustc_middle::ty::adjustment::PointerCoercion as PC;
                        let oty = op.ty(body, tcx);
                        let oty = inst.instantiate_mir_and_normalize_erasing_regions(tcx, env, ty::EarlyBinder::bind(oty));
                        match pc {
                            PC::ReifyFnPointer(_) => {
                                if let ty::FnDef(d, ga) = oty.kind() {
                                    if let Ok(Some(c)) = Instance::try_resolve(tcx, env, *d, ga) {
                                        let cid = intern(c, &mut insts, &mut work);
                                        edges.push(format!("[{},{},{},\"reify\"]", id, bb.as_usize(), cid));
                                    }
                                }
                            }
                            PC::ClosureFnPointer(_) => {
                                if let ty::Closure(d, ga) = oty.kind() {
                                    let c = Instance::resolve_closure(tcx, *d, ga, ty::ClosureKind::FnOnce);
                                    let cid = intern(c, &mut insts, &mut work);
                                    edges.push(format!("[{},{},{},\"reify\"]", id, bb.as_usize(), cid));
                                }
                            }
                            PC::Unsize => {
                                let tty = inst.instantiate_mir_and_normalize_erasing_regions(
                                    tcx,
                                    env,
                                    ty::EarlyBinder::bind(b.1.ty(body, tcx)),
                                );
                                let tp = if tty.is_box() { Some(tty.expect_boxed_ty()) } else { tty.builtin_deref(true) };
                                let sp = if oty.is_box() { Some(oty.expect_boxed_ty()) } else { oty.builtin_deref(true) };
                                if let (Some(p), Some(srcp)) = (tp, sp) {
                                    if let ty::Dynamic(preds, _) = p.kind() {
                                        let mut handled = false;
                                        if let Some(principal) = preds.principal() {
                                            if !matches!(srcp.kind(), ty::Dynamic(..)) {
                                                let tr = principal.with_self_ty(tcx, srcp);
                                                let tr = tcx.instantiate_bound_regions_with_erased(tr);
                                                for e in tcx.vtable_entries(tr) {
                                                    if let ty::VtblEntry::Method(c) = e {
                                                        let cid = intern(*c, &mut insts, &mut work);
                                                        edges.push(format!("[{},{},{},\"vtable\"]", id, bb.as_usize(), cid));
                                                    }
                                                }
                                                handled = true;
                                            }
                                        } else {
                                            handled = true; // auto traits only: no methods
                                        }
                                        if !handled {
                                            unresolved.push(format!(
                                                "[{},{},{}]",
                                                id,
                                                bb.as_usize(),
                                                json::quote(&format!("unsize-dyn:{}", p))
                                            ));
                                        }
                                    }
                                } else if rustc_middle::ty::print::with_no_trimmed_paths!(format!("{}", tty)).contains("dyn ") {
                                    unresolved.push(format!(
                                        "[{},{},{}]",
                                        id,
                                        bb.as_usize(),
                                        json::quote(&format!("unsize-other:{}", tty))
                                    ));
                                }
                            }
                            _ => {}
                        }
                    }
                }
            }
            let term = data.terminator();
            match &term.kind {
                TerminatorKind::Call { func, .. } | TerminatorKind::TailCall { func, .. } => {
                    let fty = func.ty(body, tcx);
                    let fty = inst.instantiate_mir_and_normalize_erasing_regions(tcx, env, ty::EarlyBinder::bind(fty));
                    match fty.kind() {
                        ty::FnDef(d, ga) => match Instance::try_resolve(tcx, env, *d, ga) {
                            Ok(Some(c)) => {
                                let cid = intern(c, &mut insts, &mut work);
                                edges.push(format!("[{},{},{},\"call\"]", id, bb.as_usize(), cid));
                            }
                            _ => unresolved.push(format!(
                                "[{},{},{}]",
                                id,
                                bb.as_usize(),
                                json::quote(&format!("unresolved:{}", qname(tcx, *d)))
                            )),
                        },
                        _ => unresolved.push(format!("[{},{},{}]", id, bb.as_usize(), json::quote("indirect"))),
                    }
                }
                TerminatorKind::Drop { place, .. } => {
                    let pty = place.ty(body, tcx).ty;
                    let pty = inst.instantiate_mir_and_normalize_erasing_regions(tcx, env, ty::EarlyBinder::bind(pty));
                    let c = Instance::resolve_drop_in_place(tcx, pty);
                    if let InstanceKind::DropGlue(_, Some(_)) = c.def {
                        let cid = intern(c, &mut insts, &mut work);
                        edges.push(format!("[{},{},{},\"drop\"]", id, bb.as_usize(), cid));
                    }
                }
                _ => {}
            }
        }
    }

    // emit
    let mut out = J::obj();
    out.str("crate", "vf_witness");
    out.str("config", &std::env::var("VF_CONFIG").unwrap_or_default());
    out.str("nonce", &std::env::var("VF_NONCE").unwrap_or_default());
    let mut fj = J::obj();
    let mut seen_names: HashMap<String, usize> = HashMap::new();
    let mut def_names: HashMap<DefId, String> = HashMap::new();
    for d in &body_defs {
        let mut q = qname(tcx, *d);
        let n = seen_names.entry(q.clone()).or_insert(0);
        *n += 1;
        if *n > 1 {
            q = format!("{}#{}", q, n);
        }
        def_names.insert(*d, q.clone());
        let s = fn_json(&mut cx, *d);
        fj.raw(&q, &s);
    }
    out.raw("fns", &fj.finish());
    let mut ia = J::arr();
    for (id, inst) in insts.iter().enumerate() {
        let mut ij = J::obj();
        ij.num("id", id as i128);
        let d = inst.def_id();
        let name = match def_names.get(&d) {
            Some(n) if matches!(inst.def, InstanceKind::Item(_)) => n.clone(),
            _ => qname(tcx, d),
        };
        ij.str("fn", &name);
        ij.str("crate", &crate_of(tcx, d));
        ij.str("kind", inst_kind_str(&inst.def));
        ij.str("args", &rustc_middle::ty::print::with_no_trimmed_paths!(format!("{:?}", inst.args)));
        if let InstanceKind::DropGlue(_, Some(t)) = inst.def {
            ij.str("drop_ty", &rustc_middle::ty::print::with_no_trimmed_paths!(format!("{}", t)));
            ij.num("drop_tyix", cx.ty(t) as i128);
        }
        ij.boolean("leaf", leaf.contains(&id));
        ia.push_raw(&ij.finish());
    }
    out.raw("instances", &ia.finish());
    out.raw("edges", &format!("[{}]", edges.join(",")));
    out.raw("unresolved", &format!("[{}]", unresolved.join(",")));
    let mut rj = J::obj();
    for (n, id) in &roots {
        rj.num(n, *id as i128);
    }
    out.raw("roots", &rj.finish());
    let mut aj = J::obj();
    for (k, v) in &cx.adts {
        aj.raw(k, v);
    }
    out.raw("adts", &aj.finish());
    out.raw("types", &format!("[{}]", cx.types.join(",")));
    out.finish()
}

// ------------------------------------------------------------------------------------------------
// fatfs pass: API surface + audit of constructs that would make the call graph incomplete

fn api_pass<'tcx>(tcx: TyCtxt<'tcx>) -> String {
    let ev = tcx.effective_visibilities(());
    let mut cx = Cx::new(tcx);
    let mut fj = J::obj();
    let mut seen_names: HashMap<String, usize> = HashMap::new();
    let mut out = J::obj();
    out.str("crate", "fatfs");
    out.str("config", &std::env::var("VF_CONFIG").unwrap_or_default());
    out.str("nonce", &std::env::var("VF_NONCE").unwrap_or_default());
    let mut all = J::arr();
    let mut public = J::arr();
    let mut n_unsafe = 0usize;
    let mut n_indirect = 0usize;
    let mut consts = J::obj();
    for ld in tcx.mir_keys(()).iter() {
        let d = ld.to_def_id();
        let kind = tcx.def_kind(d);
        match kind {
            DefKind::Fn | DefKind::AssocFn | DefKind::Closure => {}
            DefKind::Const { .. } | DefKind::AssocConst { .. } => {
                // evaluated named constants
                let ty = tcx.type_of(d).instantiate_identity().skip_norm_wip();
                if ty.is_integral() && !tcx.generics_of(d).requires_monomorphization(tcx) {
                    if let Ok(v) = tcx.const_eval_poly(d) {
                        if let Some(si) = v.try_to_scalar_int() {
                            let mut cj = J::obj();
                            cj.str("ty", &format!("{}", ty));
                            cj.num_u("val", si.to_bits(si.size()));
                            consts.raw(&qname(tcx, d), &cj.finish());
                        }
                    }
                }
                continue;
            }
            _ => continue,
        }
        let mut q = qname(tcx, d);
        let n = seen_names.entry(q.clone()).or_insert(0);
        *n += 1;
        if *n > 1 {
            q = format!("{}#{}", q, n);
        }
        all.push_str(&q);
        let s = fn_json(&mut cx, d);
        fj.raw(&q, &s);
        if matches!(kind, DefKind::Fn | DefKind::AssocFn) {
            if ev.is_reachable(*ld) {
                public.push_str(&q);
            }
            let sig = tcx.fn_sig(d).skip_binder();
            if sig.safety().is_unsafe() {
                n_unsafe += 1;
            }
        }
        let body = tcx.optimized_mir(d);
        for data in body.basic_blocks.iter() {
            if let TerminatorKind::Call { func, .. } = &data.terminator().kind {
                let fty = func.ty(body, tcx);
                if !matches!(fty.kind(), ty::FnDef(..)) {
                    n_indirect += 1;
                }
            }
        }
    }
    out.raw("fns", &fj.finish());
    let mut aj = J::obj();
    for (k, v) in &cx.adts {
        aj.raw(k, v);
    }
    out.raw("adts", &aj.finish());
    out.raw("types", &format!("[{}]", cx.types.join(",")));
    out.raw("all_fns", &all.finish());
    out.raw("public_fns", &public.finish());
    out.raw("consts", &consts.finish());
    out.num("unsafe_fns", n_unsafe as i128);
    out.num("indirect_calls", n_indirect as i128);
    out.finish()
}
