// Minimal JSON writer (the driver has no Cargo dependencies).

pub fn quote(s: &str) -> String {
    let mut o = String::with_capacity(s.len() + 2);
    o.push('"');
    for c in s.chars() {
        match c {
            '"' => o.push_str("\\\""),
            '\\' => o.push_str("\\\\"),
            '\n' => o.push_str("\\n"),
            '\r' => o.push_str("\\r"),
            '\t' => o.push_str("\\t"),
            c if (c as u32) < 0x20 => o.push_str(&format!("\\u{:04x}", c as u32)),
            c => o.push(c),
        }
    }
    o.push('"');
    o
}

pub struct J {
    buf: String,
    first: bool,
    close: char,
}

impl J {
    pub fn obj() -> J {
        J { buf: String::from("{"), first: true, close: '}' }
    }
    pub fn arr() -> J {
        J { buf: String::from("["), first: true, close: ']' }
    }
    fn sep(&mut self) {
        if !self.first {
            self.buf.push(',');
        }
        self.first = false;
    }
    fn key(&mut self, k: &str) {
        self.sep();
        self.buf.push_str(&quote(k));
        self.buf.push(':');
    }
    pub fn str(&mut self, k: &str, v: &str) {
        self.key(k);
        self.buf.push_str(&quote(v));
    }
    pub fn num(&mut self, k: &str, v: i128) {
        self.key(k);
        self.buf.push_str(&v.to_string());
    }
    pub fn num_u(&mut self, k: &str, v: u128) {
        self.key(k);
        self.buf.push_str(&v.to_string());
    }
    pub fn boolean(&mut self, k: &str, v: bool) {
        self.key(k);
        self.buf.push_str(if v { "true" } else { "false" });
    }
    pub fn null(&mut self, k: &str) {
        self.key(k);
        self.buf.push_str("null");
    }
    pub fn raw(&mut self, k: &str, v: &str) {
        self.key(k);
        self.buf.push_str(v);
    }
    pub fn push_raw(&mut self, v: &str) {
        self.sep();
        self.buf.push_str(v);
    }
    pub fn push_str(&mut self, v: &str) {
        self.sep();
        self.buf.push_str(&quote(v));
    }
    pub fn finish(mut self) -> String {
        self.buf.push(self.close);
        self.buf
    }
}
